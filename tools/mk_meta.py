#!/usr/bin/env python3
# usage: tools/mk_meta.py <seed-id> <property> <worktree> <change> <needs> <detection>
import json,sys,os,glob
sid,prop,wt,change,needs,det=sys.argv[1:7]
d=f'/verif/seeded/{sid}'
notes=open(os.path.join(wt,'meta.txt')).read() if os.path.exists(os.path.join(wt,'meta.txt')) else ''
res=' | '.join(open(f).read().strip() for f in sorted(glob.glob(d+'/result_*.txt')))
meta={"id":sid,"property":prop,"change":change,"needs_to_manifest":needs,"detection":det,
 "confirmed":{"how":"tools/try_mutant.sh: in the scratch worktree the demo test fails with the change, the repository suite passes with it, the demo passes without it; then the patch was applied to /repo, the check run, and /repo restored (git checkout -- .)","result":res},
 "files":sorted(f for f in os.listdir(d) if f!='meta.json'),
 "author":"independent sub-agent given only the property text and a scratch worktree","agent_notes":notes}
json.dump(meta,open(d+'/meta.json','w'),indent=1,ensure_ascii=False)
print(d+'/meta.json')
