#!/usr/bin/env python3
"""Prints known-finding entries for the unlisted, natively reproduced violations of the
last run of a check (to be reviewed by hand before being added to known_findings.json)."""
import json,sys,re
pid=sys.argv[1]
e=json.load(open('/verif/evidence/%s.json'%pid))
out={}
for v in e['coverage']['violations_detail'] or []:
    if v['status']!='reproduced' or v.get('known_as'): continue
    job=v['job']
    msg=v['msg']
    cls=re.sub(r'\[.*','',msg).strip()
    cls=re.sub(r'^runtime error: ','',cls)
    key=(v['kind'],v['label'],v['site'],job.get('cmd',''),cls)
    ex={k:job[k] for k in job if not k.startswith('__')}
    if key in out: continue
    ent={"property":pid,"status":"known","kind":v['kind'],"label":v['label']}
    if v['site']: ent["site"]=v['site']
    if job.get('cmd'): ent["job"]={"cmd":job['cmd']}
    if v['kind'] in('panic',): ent["msg_re"]="^runtime error: "+re.escape(cls) if msg.startswith('runtime error') else "^"+re.escape(cls[:40])
    ent["what"]="%s: %s in %s, e.g. %s with %s" % (job.get('cmd','?'), msg[:90], v['site'], ex, v['vals'])
    out[key]=ent
print(json.dumps(list(out.values()),indent=1))
