import json,sys
e=json.load(open('/verif/evidence/%s.json'%sys.argv[1]))
seen=set()
for v in (e['coverage']['violations_detail'] or []):
    job={k:v['job'][k] for k in v['job'] if k!='__harness'}
    key=(v['kind'],v['label'],v['site'])
    print(v['kind'],v['label'],v['site'],job,v['vals'],v['msg'][:90],'|',v['status'][:60],'|',v.get('known_as') or '')
print(e['coverage']['paths_by_outcome'], e['wall_s'])
