#!/bin/bash
# usage: tools/run_some.sh <tier> <id>... : runs the given checks once, logs under /root/thor
TIER=$1; shift
mkdir -p /root/thor
cd /verif
for id in "$@"; do
  s=$(date +%s)
  ./check $id $TIER --timeout ${TMO:-3000} > /root/thor/${TIER}_$id.log 2>&1; rc=$?
  e=$(date +%s)
  echo "$id $TIER exit=$rc $((e-s))s $(grep -c '^VIOLATION' /root/thor/${TIER}_$id.log) violations $(grep -c '^KNOWN-FINDING' /root/thor/${TIER}_$id.log) known; $(tail -1 /root/thor/${TIER}_$id.log | cut -c1-260)"
done
