#!/bin/bash
# usage: tools/try_mutant.sh <seed-id> <property> <worktree> <demo-test-relpath> [tier] [extra check args]
# Confirms a seeded change (compiles, suite passes, demo fails with / passes without) in the
# scratch worktree, then applies it to /repo, runs the property's check, and undoes it.
set -u
ID="$1"; PROP="$2"; WT="$3"; DEMO="$4"; TIER="${5:-quick}"; shift 5 2>/dev/null || shift $#
export GOFLAGS=-mod=mod GOPROXY=off
OUT=/verif/seeded/$ID
mkdir -p "$OUT"
cd "$WT" || exit 2
DEMODIR=$(dirname "$DEMO")
git diff > "$OUT/patch.diff"
[ -s "$OUT/patch.diff" ] || cp "$WT/mutant.diff" "$OUT/patch.diff"
cp "$WT/$DEMO" "$OUT/$(basename "$DEMO")"
# 1. demo fails with the change
go test -vet=off -count=1 -run 'TestZZDemo$' "./$DEMODIR/" > "$OUT/demo_with.log" 2>&1; WITH=$?
# 2. suite passes with the change (demo set aside)
mv "$WT/$DEMO" /tmp/zz_demo_aside.go
go test -vet=off -count=1 ./... > "$OUT/suite_with.log" 2>&1; SUITE=$?
mv /tmp/zz_demo_aside.go "$WT/$DEMO"
# 3. demo passes without the change
# (not git stash: the stash is shared between worktrees of one repository)
git apply -R "$OUT/patch.diff"
go test -vet=off -count=1 -run 'TestZZDemo$' "./$DEMODIR/" > "$OUT/demo_without.log" 2>&1; WITHOUT=$?
git apply "$OUT/patch.diff"
echo "demo_with_change_exit=$WITH (want !=0) suite_with_change_exit=$SUITE (want 0) demo_without_change_exit=$WITHOUT (want 0)"
# 4. run the check against /repo with the change applied
#    TRY_VIA=mirror: /repo is busy (a sweep reads it): run a copy of /verif against the scratch
#    worktree instead (VERIF_REPO), demo set aside; TRY_LOG=<file>: reuse the log of such a run
if [ "${TRY_VIA:-}" = mirror ]; then
  if [ -n "${TRY_LOG:-}" ]; then
    cp "$TRY_LOG" "$OUT/check_$TIER.log"; CHK=$(grep -o 'exit=[0-9]*' "$OUT/check_$TIER.log" | tail -1 | cut -d= -f2)
  else
    rsync -a --delete --exclude .git --exclude .scratch /verif/ /root/mv/
    mv "$WT/$DEMO" /tmp/zz_demo_aside.go
    (cd /root/mv && VERIF_REPO="$WT" timeout 3000 ./check "$PROP" "$TIER" --timeout 2400 "$@" > "$OUT/check_$TIER.log" 2>&1); CHK=$?
    mv /tmp/zz_demo_aside.go "$WT/$DEMO"
  fi
else
cd /repo && git apply "$OUT/patch.diff" || { echo "patch does not apply to /repo"; exit 2; }
cd /verif && timeout 3000 ./check "$PROP" "$TIER" --timeout 2400 "$@" > "$OUT/check_$TIER.log" 2>&1; CHK=$?
git -C /repo checkout -- .
git -C /repo status --short | grep -v '^??' | head -3
fi
NV=$(grep -c '^VIOLATION' "$OUT/check_$TIER.log")
echo "check $PROP $TIER exit=$CHK violations=$NV"
grep -m3 "^  assert\|^  panic\|^  hang\|^  spin\|^  deadlock" "$OUT/check_$TIER.log" | cut -c1-200
tail -1 "$OUT/check_$TIER.log" | cut -c1-250
cat > "$OUT/result_$TIER.txt" <<EOT
demo_with_change_exit=$WITH suite_with_change_exit=$SUITE demo_without_change_exit=$WITHOUT check_exit=$CHK violations=$NV
EOT
