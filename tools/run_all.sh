#!/bin/bash
# usage: tools/run_all.sh [quick|thorough] : runs every registered check once, prints exit codes and times
TIER=${1:-quick}
cd /verif
for id in $(python3 -c "import json; print(' '.join(c['property_id'] for c in json.load(open('MANIFEST.json'))['checks']))"); do
  s=$(date +%s)
  ./check $id $TIER > /tmp/runall_$id.log 2>&1; rc=$?
  e=$(date +%s)
  echo "$id $TIER exit=$rc $((e-s))s $(grep -c '^VIOLATION' /tmp/runall_$id.log) violations $(grep -c '^KNOWN-FINDING' /tmp/runall_$id.log) known"
done
