#!/usr/bin/env python3
"""Regenerates the C05 entries of known_findings.json from the evidence of a full (thorough)
run: one entry per (assertion label with its key classes, mode, prefix, co-delivery) whose
violation reproduced natively. To be run by hand after triage, never by a check."""
import json, sys

ev = json.load(open(sys.argv[1] if len(sys.argv) > 1 else '/verif/evidence/C05.json'))
kf_path = '/verif/known_findings.json'
kf = json.load(open(kf_path))
old = [e for e in kf if e['property'] == 'C05' and e['status'] == 'known']
keep = [e for e in kf if not (e['property'] == 'C05' and e['status'] == 'known')]

T_REPORT = ("type-ahead that shares a read with a cursor-position report is lost or reordered "
            "(Keys.GetCursorPos keeps only the report / appends the rest after later input)")
T_GENERAL = ("the same bytes give another outcome in one read than split over reads: a key-reading command "
             "(Keys.ReadKey: quoted-insert, vi f/r/registers, digit arguments) ignores keys already buffered and waits for "
             "a new read; keys a command feeds back (do-lowercase-version, macros) are queued behind buffered type-ahead; "
             "a re-queued prefix (MatchedPrefix / mustWait) is resolved against the next read only; bytes >= 0x80 are "
             "dropped per read")
seen = {}
for v in ev['coverage']['violations_detail'] or []:
    if v['status'] != 'reproduced':
        continue
    job = v['job']
    key = (v['label'], job['mode'], job['pre'])
    if key in seen:
        continue
    what = "chunking changes the outcome (%s) for prefix %r in %s: %s; e.g. values %s" % (
        v['label'], job['pre'], job['mode'],
        T_REPORT if 'typeahead-with-cursor-report' in v['label'] else T_GENERAL,
        json.dumps(v['vals'], sort_keys=True))
    seen[key] = {"property": "C05", "status": "known", "kind": "assert", "label": v['label'],
                 "job": {"mode": job['mode'], "pre": job['pre']}, "what": what,
                 "record": "known: property=C05 " + what}
new = list(seen.values())
print("old C05 entries: %d, new: %d" % (len(old), len(new)), file=sys.stderr)
json.dump(keep + new, open(kf_path, 'w'), indent=1, ensure_ascii=False)
