#!/usr/bin/env python3
"""Regenerates /verif/MANIFEST.json from the table below (kept by hand)."""
import json

CLAIMED = {
 # id: (level text, level note, technique, design ref)
 "C12": ("Bounded symbolic model checking of inputrc.ParseBytes on directive skeletons with symbolic holes (runes/bytes), symbolic parser options and include graphs: every Go run-time panic, unbounded recursion and non-termination is an assertion decided by z3 for all hole values within the bound; counterexamples are replayed natively.",
         "Trusted: the gosx interpreter and its models of bufio/bytes/strings/unicode (validated by native replay and selftest); holes range over Latin-1 plus all caseless scalar values in quick tier.",
         "symbolic execution of the real SSA + SMT (z3) decision of panic/termination assertions", "DESIGN.md §5 C12"),
 "C13": ("Bounded symbolic model checking of the parser against a reference evaluator: programs of up to d directives with symbolic directive kinds and symbolic condition operands; equality of the resulting Config with the reference is asserted and decided by z3 on every path; the accept commands are also typed in a real Readline call, alone and after an earlier call left through each accept command.",
         "Trusted: gosx and the 30-line reference evaluator in the harness; only well-formed programs are compared.",
         "symbolic execution of the real SSA + SMT (z3) equivalence check against a reference evaluator", "DESIGN.md §5 C13"),
 "C19": ("Bounded symbolic model checking of Unescape(Escape(s)) == s and Unescape(EscapeMacro(s)) == s for all sequences of up to n runes in the property's domain (0x00-0xFF plus printable Unicode), and of dump-functions / dump-macros / dump-variables in inputrc format followed by ParseBytes reproducing a symbolic binding, macro or variable value; unicode.IsPrint/ToUpper are exact range formulas generated from the toolchain's tables.",
         "Trusted: gosx, its fmt.Sprintf %x model and unicode range formulas (validated by replay/selftest). The dump-and-reparse half runs the real dump commands inside Readline and parses the captured dump lines back (symbolic binding, macro, and one variable of each type).",
         "symbolic execution of the real SSA + SMT (z3) round-trip assertion", "DESIGN.md §5 C19"),
}

CLAIMED["C08"] = ("Bounded symbolic model checking of history recording: Sources.Accept/Write run on symbolic accepted lines, symbolic prior entries, 1-2 bound sources (every map iteration order) and a symbolic history-size; the post-state of every source is compared with the recording rule of the property, decided by z3 on every path.",
 "Trusted: gosx; two levels: Sources.Accept (what accept-line / accept-and-hold / operate-and-get-next / interrupt call) and the commands typed in a real Readline call.",
 "symbolic execution of the real SSA + SMT (z3) comparison with a reference recording rule", "DESIGN.md §5 C08")
CLAIMED["C09"] = ("Bounded symbolic model checking of history navigation and search through the real Readline loop: symbolic history entries and in-progress text, symbolic sequences of navigation/search commands typed through key bindings; after every command the buffer is compared with a position model / matching rule and the entries with their initial values; the history source is bound before Readline is called and the walks are repeated in a second Readline call.",
 "Trusted: gosx, the paint stubs (display output is not observed), the terminal stub answering cursor queries; incremental search (Ctrl-R/Ctrl-S sessions) is not driven.",
 "symbolic execution of the real SSA (Readline loop) + SMT (z3) assertions against a navigation model", "DESIGN.md §5 C09")

CLAIMED["C16"] = ("Bounded symbolic model checking of kill/yank through the real Readline loop: from a symbolic buffer, cursor and mark each kill command (by name, typed through its binding, with and without a numeric argument) runs, then yank / vi-put-before; contiguity of the removed range, equality with the kill-ring top and restoration of the buffer are asserted on every path and decided by z3; further jobs run two kills and then yank (the most recent kill is what yank inserts) and a kill in one Readline call followed by yank in the next.",
 "Trusted: gosx, paint stubs, terminal stub; buffers exclude NUL (Line.Insert strips it by design).",
 "symbolic execution of the real SSA (Readline loop) + SMT (z3) assertions", "DESIGN.md §5 C16")
CLAIMED["C17"] = ("Bounded symbolic differential model checking of the vi operators: two shells start from the same symbolic buffer/cursor, one runs d<count><motion>, the other y<count><motion>, for every motion/text object of the property; buffer-unchanged-by-yank, one-contiguous-range-removed and equality of both registers with that range are asserted on every path.",
 "Trusted: gosx, paint stubs, terminal stub. Visual-mode variants (v m d / v m y) are not driven.",
 "symbolic execution of the real SSA (two Readline runs per path) + SMT (z3) equivalence assertions", "DESIGN.md §5 C17")

CLAIMED["C01"] = ("Bounded symbolic model checking of crash/hang freedom of the real Readline loop: (a) every registered command by name, typed through a key binding in emacs / vi-insert / vi-command from a symbolic buffer, cursor and mark, key-reading commands being fed a symbolic byte; (b) fully symbolic key bytes after context-opening prefixes (ESC, C-x, quoted-insert, vi operators, registers, f/r, visual), in one read or split; (c) stdin reporting EOF or an error at the end of the script; (d) a cursor-position report typed as input. Every Go panic, channel deadlock, busy loop on dead input and loop-budget overrun is an engine outcome decided per path with z3 and replayed natively on a pty.",
 "Trusted: gosx, paint stubs (display painting not observed), terminal stub; external-editor commands are out of scope; SIGWINCH goroutine never scheduled.",
 "symbolic execution of the real SSA (Readline loop) + SMT (z3) feasibility of panic/deadlock/spin paths", "DESIGN.md §5 C01")
CLAIMED["C02"] = ("Bounded symbolic model checking of typed-text fidelity: n symbolic printable runes (exact unicode.IsPrint formula) per class are delivered as UTF-8 plus Enter to the real Readline loop in emacs and vi-insert; the returned line must equal the typed text; ASCII under symbolic meta variables; also after an earlier Readline call on the same shell.",
 "Trusted: gosx, paint stubs, terminal stub.",
 "symbolic execution of the real SSA (Readline loop) + SMT (z3) equality assertion", "DESIGN.md §5 C02")
CLAIMED["C06"] = ("Bounded symbolic model checking of cursor/selection invariants and movement purity: one inductive step from a symbolic buffer/cursor/mark per movement or copy command (by name, with numeric arguments, key-reading ones with a symbolic argument byte) in the real Readline loop; at every later input wait cursor and selection bounds, the vi-command on-a-character rule and buffer equality are asserted.",
 "Trusted: gosx, paint stubs, terminal stub; pre-state components other than buffer/cursor/mark/mode have their post-init values.",
 "symbolic execution of the real SSA (Readline loop) + SMT (z3) invariant assertions (one inductive step)", "DESIGN.md §5 C06")

CLAIMED["C05"] = ("Bounded symbolic differential model checking of chunking independence: two shells receive the same bytes (concrete context-opening prefix + symbolic bytes), one in a single read, the other under a symbolic chunking and with symbolic co-delivery of type-ahead in the same read as a cursor-position report; outcomes (returned line/error, or buffer/cursor/keymaps at the final wait) are asserted equal on every path.",
 "Trusted: gosx, paint stubs, terminal stub; timing finer than read boundaries is not modelled (keyseq-timeout is not implemented by the library).",
 "symbolic execution of the real SSA (two Readline runs per path) + SMT (z3) equivalence assertions", "DESIGN.md §5 C05")

CLAIMED["C18"] = ("Bounded symbolic model checking of macro record/replay at the macro engine: k symbolic ASCII key bytes are recorded through the same calls the main loop makes per resolved key, stored in inputrc notation and replayed in the emacs style (RunLastMacro) and the vi style (RunMacro of a named register); the keys popped from the key stack must equal the keys typed; at session level the outcome of recording and calling a symbolic key script must equal the outcome of typing it twice (also with the line accepted between the recording and the call, which then happens in a second Readline call); decided by z3 for all key values.",
 "Trusted: gosx, paint stubs, terminal stub. Two levels: the macro engine alone (key stack observed with core.PopKey), and two whole Readline sessions per path (C-x ( K C-x ) C-x e, or q a K q @ a, against K typed twice) for symbolic scripts K of complete commands.",
 "symbolic execution of the real SSA (macro engine; two Readline sessions per path) + SMT (z3) equality of replayed and typed keys / outcomes", "DESIGN.md §5 C18")

CLAIMED["C07"] = ("Bounded symbolic model checking of undo/redo through the real Readline loop: symbolic sequences of editing commands (inserts, backspace, kills, yank, movements, undo) typed one key per read, with a ghost list of the buffers shown; undo results must be earlier states, repeated undo must reach the initial content, n undos + n redos must restore the text, an edit after undo must discard the redo branch; the undo walk is also checked in a second Readline call after an earlier call on the same shell ended in five different ways.",
 "Trusted: gosx, paint stubs, terminal stub; emacs mode only, history walks are not part of the command alphabet.",
 "symbolic execution of the real SSA (Readline loop) + SMT (z3) decision over symbolic command sequences, assertions against a ghost model", "DESIGN.md §5 C07")

CLAIMED["C03"] = ("Bounded symbolic model checking of key dispatch against a reference resolver: a keymap of a real shell is replaced by a symbolic table of bindings (symbolic sequences over printable, ESC, control and meta-encoded keys, each bound to its own probe command) and symbolic keys are typed one per read into the real Readline loop; which command fires first and at which key is asserted equal to the five rules of the property.",
 "Trusted: gosx, the 30-line reference resolver, paint stubs, terminal stub. Tables are installed as emacs, vi-insert, vi-command main keymaps and as visual, vi-opp, menu-select local keymaps (isearch not covered); macro tables bind one sequence to a macro whose keys are another binding's sequence; the first resolution is compared with the resolver, every later firing must be justified by the keys typed.",
 "symbolic execution of the real SSA (Readline loop, symbolic bind tables) + SMT (z3) equivalence with a reference resolver", "DESIGN.md §5 C03")

CLAIMED["C14"] = ("Bounded symbolic model checking of completion locality through the real Readline loop with the display engine unstubbed: symbolic buffer and cursor, an application completer offering candidates that extend the word before the cursor, TAB typed k times and optionally Ctrl-C; after each TAB the buffer must be prefix + candidate + text after the cursor with the cursor after the candidate; after Ctrl-C buffer and cursor are restored and Readline still waits.",
 "Trusted: gosx, terminal stub, the independent word-start reference. Candidate sets are prefix-consistent; suffix matchers, descriptions and case-insensitive matching are not varied.",
 "symbolic execution of the real SSA (Readline loop incl. completion engine and display) + SMT (z3) locality assertions", "DESIGN.md §5 C14")
CLAIMED["C15"] = ("Bounded symbolic model checking of menu cycling through the real Readline loop with the display engine unstubbed and a symbolic terminal size: for candidate sets of several sizes and structures (plain, described, shared descriptions, two tags) menu-complete / menu-complete-backward are invoked n+1 times; each path (a class of terminal sizes giving one grid shape) must show every candidate exactly once and then the first again.",
 "Trusted: gosx, terminal stub (symbolic winsize), native uniseg width on concrete candidate text.",
 "symbolic execution of the real SSA (completion grid arithmetic over a symbolic terminal size) + SMT (z3) path decisions, exactly-once assertions", "DESIGN.md §5 C15")

CLAIMED["C11"] = ("Bounded symbolic model checking of terminal restoration on every way out of Readline (accept-line, accept-and-hold, interrupt, end-of-file, insert-comment, a panicking user command) in emacs, vi-insert and vi-command: the initial terminal mode settings are symbolic (flag words, VMIN, VTIME) and must be equal after the call for all values; the output stream is interpreted by a VT100 model on a terminal of symbolic width: the last cursor style must be the user's default and the cursor must stand at column 0 of a fresh row below the input (wrapped and exactly-filled rows included).",
 "Trusted: gosx, the VT100 model in the harness package (zzverif.VT), terminal stubs. Single-line buffers of lower-case letters; hints/menus are not open at exit; MakeRaw failing is not driven.",
 "symbolic execution of the real SSA (Readline loop, display engine, term package) + SMT (z3) equality of symbolic termios and VT-model cursor assertions", "DESIGN.md §5 C11")

CLAIMED["C04"] = ("Bounded symbolic model checking of the redisplay against a VT100 model: the real display engine paints two successive frames (different symbolic buffers and cursor positions) on a terminal of symbolic width that answers cursor-position queries truthfully; after each frame the model's grid must equal the reference layout of prompt + buffer (no remnants) and its cursor must be on the cell of the buffer cursor, for all widths/positions of a path.",
 "Trusted: gosx, the VT100 model (zzverif.VT: cursor movement, CR/LF, EL/ED, deferred autowrap) and the reference layout built with it. Lower-case letters on buffers up to 8/18; small buffers with embedded newlines and with a double-width character (width model of uniseg); no hints/menus, no right/transient prompt.",
 "symbolic execution of the real SSA (display engine, term package) + SMT (z3) path decisions over symbolic width/cursor, grid equality assertions against a reference layout", "DESIGN.md §5 C04")

PENDING = {}

NA = {
 "C10": "solver-based checking does not reach it: record encoding is reflection-driven encoding/json, the length defect sits beyond a 64 KiB symbolic buffer, and crash-at-any-byte is a statement about kernel file semantics (DESIGN.md §6)",
 "C20": "the quantifier is over preemptive interleavings / data races of unsynchronised goroutines; the engine executes one goroutine and a cooperative scheduler would be blind to exactly those accesses (DESIGN.md §6)",
}

def main():
    props=[json.loads(l)["id"] for l in open("/verif/properties.jsonl")]
    checks=[]
    for pid in props:
        if pid in CLAIMED:
            text,note,tech,ref=CLAIMED[pid]
            checks.append({
              "property_id": pid,
              "quick_cmd": f"./check {pid} quick",
              "thorough_cmd": f"./check {pid} thorough",
              "evidence_file": f"/verif/evidence/{pid}.json",
              "replay_cmd_template": f"./check {pid} --replay {{path}}",
              "engine": "gosx",
              "level_claimed": {"category": "model_checking", "text": text, "design_ref": ref},
              "level_note": note,
              "technique": tech,
            })
    na=[]
    for pid in props:
        if pid in CLAIMED: continue
        reason = NA.get(pid) or PENDING.get(pid) or "no check registered yet: the harness for this property has not run clean on the unchanged tree in this session (see DESIGN.md status)"
        na.append({"property_id": pid, "reason": reason})
    m={
     "version": 1,
     "setup_cmd": "cd /verif/engine && GOFLAGS=-mod=mod GOPROXY=off go build -o /verif/bin/gosx . && /verif/bin/gosx selftest",
     "hooks": {
      "guard": "verif",
      "enable": "no hooks: harnesses are injected by go/packages and `go test` overlays (files under /verif/harness); /repo is never modified by a check",
      "baseline_off_cmd": "cd /repo && GOFLAGS=-mod=mod GOPROXY=off go test -vet=off -count=1 ./...",
      "source_commits": [],
      "add_only": True
     },
     "engines": [{"name": "gosx", "path": "/verif/engine", "serves_properties": sorted(CLAIMED), "kind_free_text": "symbolic executor for Go over go/ssa: executes the real SSA of /repo's current tree with bit-vector SMT terms as inputs, z3 -in per worker, native replay of counterexamples via go test -overlay and a pty"}],
     "checks": checks,
     "not_applicable": na,
     "notes": "See DESIGN.md. Check exit codes: 0 = held on everything explored (listed findings printed as KNOWN-FINDING lines), 1 = VIOLATION (natively reproduced, not listed in known_findings.json), 2 = inconclusive (unsupported construct, solver unknown, budget, harness does not compile) - never reported as a pass."
    }
    json.dump(m, open("/verif/MANIFEST.json","w"), indent=1)
    print("claimed:", sorted(CLAIMED), "n/a:", [x["property_id"] for x in na])

main()
