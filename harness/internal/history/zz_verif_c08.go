package history

import (
	"errors"
	"strings"

	"github.com/reeflective/readline/inputrc"
	"github.com/reeflective/readline/internal/core"
	"github.com/reeflective/readline/internal/ui"
	"github.com/reeflective/readline/internal/zzverif"
)

func zzText(prefix string, n int) string {
	rs := zzverif.Runes(prefix, n)
	for _, r := range rs {
		if zzverif.Param("alpha") == "text" {
			zzverif.Assume(zzverif.TextRune(r))
		} else {
			zzverif.Assume(r >= 0 && r < 0x80)
		}
	}
	return string(rs)
}

var zzErrInterrupt = errors.New("interrupt")

// ZZ_C08_Accept: the history sources after an accept equal what the recording rule says.
// params: ns (number of bound sources 1|2), k0,k1 (prior entries per source), ln (line
// length), el (entry length), variant (accept|hold|infer|error), size (unset|sym).
func ZZ_C08_Accept() {
	ns := zzverif.ParamInt("ns")
	ln := zzverif.ParamInt("ln")
	el := zzverif.ParamInt("el")
	variant := zzverif.Param("variant")

	cfg := inputrc.NewConfig()
	size := 0
	if zzverif.Param("size") == "sym" {
		size = zzverif.IntRange("size", 1, 4)
		cfg.Set("history-size", size)
	}
	line := new(core.Line)
	cursor := core.NewCursor(line)
	h := NewSources(line, cursor, new(ui.Hint), cfg)

	// bind sources and fill them with prior entries
	var srcs []*memory
	var before [][]string
	for s := 0; s < ns; s++ {
		k := zzverif.ParamInt("k" + string(rune('0'+s)))
		m := new(memory)
		for e := 0; e < k; e++ {
			m.items = append(m.items, zzText("e"+string(rune('0'+s))+string(rune('0'+e))+"_", el))
		}
		srcs = append(srcs, m)
		before = append(before, append([]string(nil), m.items...))
		if ns == 1 {
			h.list[defaultSourceName] = m
		} else {
			h.Add("src"+string(rune('0'+s)), m)
		}
	}

	text := zzText("l", ln)
	line.Set([]rune(text)...)

	switch variant {
	case "accept":
		h.Accept(false, false, nil)
	case "hold":
		h.Accept(true, false, nil)
	case "infer":
		h.Accept(false, true, nil)
	case "error":
		h.Accept(false, false, zzErrInterrupt)
	}
	zzverif.Reach("accepted")

	// label suffixes keep the two findings of the pinned commit apart from anything else
	sfx := ""
	if size > 0 {
		sfx = "/history-size-set"
	} else if ns > 1 {
		sfx = "/several-sources"
	}
	trimmed := strings.TrimSpace(text)
	for s, m := range srcs {
		old := before[s]
		_ = s
		record := variant == "accept" || variant == "hold"
		if trimmed == "" {
			record = false
		}
		if record && len(old) > 0 && strings.TrimSpace(old[len(old)-1]) == trimmed {
			record = false // same as this source's most recent entry
		}
		if record && size > 0 && len(old) >= size {
			record = false // the configured limit is reached
		}
		if !record {
			zzverif.Assert(len(m.items) == len(old), "not-recorded-when-rule-says-no"+sfx)
		} else {
			zzverif.Reach("recorded-expected")
			zzverif.Assert(len(m.items) == len(old)+1, "recorded-once"+sfx)
			if len(m.items) == len(old)+1 {
				zzverif.Assert(strings.TrimSpace(m.items[len(old)]) == trimmed, "recorded-text")
			}
		}
		// earlier entries are never touched
		for i := range old {
			if i < len(m.items) {
				zzverif.Assert(m.items[i] == old[i], "prior-entries-unchanged")
			}
		}
	}
}
