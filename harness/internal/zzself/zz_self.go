// Package zzself validates the engine's models of library functions against the real
// functions: every input is made symbolic and pinned to a constant by assumptions, so the
// engine must go through its symbolic models, while the expected value is computed by the
// same call on the constant (which the engine passes through to the native function).
package zzself

import (
	"fmt"
	"regexp"
	"strings"
	"unicode"
	"unicode/utf8"

	"github.com/reeflective/readline/internal/zzverif"
)

// pinned returns a string equal to s whose bytes are symbolic for the engine.
func pinned(name, s string) string {
	b := make([]byte, len(s))
	for i := range b {
		b[i] = zzverif.Byte(name + fmt.Sprint(i))
		zzverif.Assume(b[i] == s[i])
	}
	return string(b)
}

func pinnedRune(name string, r rune) rune {
	x := zzverif.Rune(name)
	zzverif.Assume(x == r)
	return x
}

var samples = []string{"", "a", "Hello, World", "  x\t", "héllo wörld", "日本語 text", "a\nb\nc", "\x1b[31mred\x1b[0m", "ÀÉÎ", "İstanbul", "tab\there", "q'uo\"te\\", "\xff\xfe", "aaa", "x=y=z"}

// ZZ_Self_Strings checks string/rune models. param: i (index of the sample)
func ZZ_Self_Strings() {
	i := zzverif.ParamInt("i")
	c := samples[i]
	s := pinned("s", c)
	zzverif.Assert(strings.ToLower(s) == strings.ToLower(c), "ToLower")
	// interpreted library code that indexes tables with bytes (unsigned narrow indices), on
	// concrete and on pinned-symbolic text
	rep := strings.NewReplacer("\x1b", "", "\xc3", "C", "a", "A")
	zzverif.Assert(rep.Replace(s) == rep.Replace(c), "Replacer-byte")
	zzverif.Assert(rep.Replace("h\xc3\xa9llo a") == "hC\xa9llo A", "Replacer-byte-literal")
	var table [256]int
	for k := range table {
		table[k] = k * 3
	}
	sum1, sum2 := 0, 0
	for k := 0; k < len(s); k++ {
		sum1 += table[s[k]]
		sum2 += table[c[k]]
	}
	zzverif.Assert(sum1 == sum2, "byte-indexed-table")
	zzverif.Assert(strings.ToUpper(s) == strings.ToUpper(c), "ToUpper")
	zzverif.Assert(strings.TrimSpace(s) == strings.TrimSpace(c), "TrimSpace")
	zzverif.Assert(strings.Index(s, "l") == strings.Index(c, "l"), "Index")
	zzverif.Assert(strings.Contains(s, "x") == strings.Contains(c, "x"), "Contains")
	zzverif.Assert(strings.HasPrefix(s, "a") == strings.HasPrefix(c, "a"), "HasPrefix")
	zzverif.Assert(strings.Count(s, "a") == strings.Count(c, "a"), "Count")
	zzverif.Assert(strings.Join(strings.Split(s, "="), "|") == strings.Join(strings.Split(c, "="), "|"), "Split")
	zzverif.Assert(strings.ReplaceAll(s, "a", "bb") == strings.ReplaceAll(c, "a", "bb"), "ReplaceAll")
	zzverif.Assert(strings.Trim(s, " x") == strings.Trim(c, " x"), "Trim")
	zzverif.Assert(strings.TrimRightFunc(s, unicode.IsSpace) == strings.TrimRightFunc(c, unicode.IsSpace), "TrimRightFunc")
	zzverif.Assert(strings.ContainsAny(s, " \t") == strings.ContainsAny(c, " \t"), "ContainsAny")
	zzverif.Assert(strings.IndexRune(s, 'ö') == strings.IndexRune(c, 'ö'), "IndexRune")
	zzverif.Assert(utf8.RuneCountInString(s) == utf8.RuneCountInString(c), "RuneCountInString")
	zzverif.Assert(string([]rune(s)) == string([]rune(c)), "rune-roundtrip")
	zzverif.Assert(len([]rune(s)) == len([]rune(c)), "rune-count")
	r1, n1 := utf8.DecodeRuneInString(s)
	r2, n2 := utf8.DecodeRuneInString(c)
	zzverif.Assert(r1 == r2 && n1 == n2, "DecodeRuneInString")
	l1, m1 := utf8.DecodeLastRuneInString(s)
	l2, m2 := utf8.DecodeLastRuneInString(c)
	zzverif.Assert(l1 == l2 && m1 == m2, "DecodeLastRuneInString")
	zzverif.Assert(fmt.Sprintf("[%s|%q|%d]", s, "k", len(s)) == fmt.Sprintf("[%s|%q|%d]", c, "k", len(c)), "Sprintf")
	re := regexp.MustCompile(`\x1b\[[0-9;]+m`)
	zzverif.Assert(re.ReplaceAllString(s, "") == re.ReplaceAllString(c, ""), "regexp-ReplaceAllString")
	zzverif.Assert(re.MatchString(s) == re.MatchString(c), "regexp-MatchString")
	ws := regexp.MustCompile(`[^\s]`)
	zzverif.Assert(fmt.Sprint(ws.FindStringIndex(s)) == fmt.Sprint(ws.FindStringIndex(c)), "regexp-FindStringIndex")
	nl := regexp.MustCompile("\n")
	zzverif.Assert(flat(nl.FindAllStringIndex(s, -1)) == flat(nl.FindAllStringIndex(c, -1)), "regexp-FindAllStringIndex")
	cm := regexp.MustCompile(`(^|\s)#.*`)
	zzverif.Assert(cm.ReplaceAllString(s, "<${0}>") == cm.ReplaceAllString(c, "<${0}>"), "regexp-expand")
}

var runes = []rune{0, 7, ' ', 'a', 'Z', '_', 0x7f, 0x80, 0x85, 0xa0, 0xad, 0xb5, 0xdf, 0xe9, 0xff, 0x130, 0x131, 0x1c5, 0x2028, 0x212a, 0x3000, 0x65e5, 0xd7ff, 0xfffd, 0x1f600, 0x10ffff}

// ZZ_Self_Runes checks the unicode predicates and case mappings. param: i
func ZZ_Self_Runes() {
	i := zzverif.ParamInt("i")
	c := runes[i]
	r := pinnedRune("r", c)
	zzverif.Assert(unicode.IsSpace(r) == unicode.IsSpace(c), "IsSpace")
	zzverif.Assert(unicode.IsLetter(r) == unicode.IsLetter(c), "IsLetter")
	zzverif.Assert(unicode.IsPrint(r) == unicode.IsPrint(c), "IsPrint")
	zzverif.Assert(unicode.IsPunct(r) == unicode.IsPunct(c), "IsPunct")
	zzverif.Assert(unicode.IsControl(r) == unicode.IsControl(c), "IsControl")
	zzverif.Assert(unicode.IsUpper(r) == unicode.IsUpper(c), "IsUpper")
	zzverif.Assert(unicode.IsLower(r) == unicode.IsLower(c), "IsLower")
	zzverif.Assert(unicode.ToUpper(r) == unicode.ToUpper(c), "ToUpper")
	zzverif.Assert(unicode.ToLower(r) == unicode.ToLower(c), "ToLower")
	zzverif.Assert(string(r) == string(c), "string(rune)")
	zzverif.Assert(utf8.RuneLen(r) == utf8.RuneLen(c), "RuneLen")
	zzverif.Assert(fmt.Sprintf("\\x%2x|%02x|%d", r, r, r) == fmt.Sprintf("\\x%2x|%02x|%d", c, c, c), "Sprintf-hex-dec")
}

func flat(xs [][]int) string {
	out := ""
	for _, x := range xs {
		for _, v := range x {
			out += fmt.Sprintf("%d,", v)
		}
		out += ";"
	}
	return out
}
