package macro

import (
	"github.com/reeflective/readline/internal/core"
	"github.com/reeflective/readline/internal/ui"
	"github.com/reeflective/readline/internal/zzverif"
)

// ZZ_C18_Unit: k symbolic ASCII key bytes (controls, ESC, quotes, backslashes included)
// are recorded exactly as the main loop records them (MatchedKeys + RecordKeys per key),
// stored, and replayed; the keys popped from the key stack must be the keys typed.
// params: k, style (emacs: register 0 + call-last-kbd-macro; vi: named register + run)
func ZZ_C18_Unit() {
	k := zzverif.ParamInt("k")
	style := zzverif.Param("style")
	typed := zzverif.Bytes("key", k)
	for _, b := range typed {
		zzverif.Assume(b < 0x80)
	}
	keys := new(core.Keys)
	eng := NewEngine(keys, new(ui.Hint))

	id := rune(0)
	if style == "vi" {
		id = 'a'
	}
	eng.StartRecord(id)
	// the loop iteration that ran the start-record command itself
	core.MatchedKeys(keys, []byte("\x18("))
	RecordKeys(eng)
	for _, b := range typed {
		core.FlushUsed(keys)
		core.MatchedKeys(keys, []byte{b})
		RecordKeys(eng)
	}
	core.FlushUsed(keys)
	eng.StopRecord()
	zzverif.Reach("recorded")

	if style == "vi" {
		eng.RunMacro(id)
	} else {
		eng.RunLastMacro()
	}
	var got []byte
	for {
		b, empty := core.PopKey(keys)
		if empty {
			break
		}
		got = append(got, b)
	}
	zzverif.Note("typed", string(typed))
	zzverif.Note("replayed", string(got))
	same := len(got) == len(typed)
	if same {
		for i := range got {
			if got[i] != typed[i] {
				same = false
			}
		}
	}
	// known finding shared with C19: C-\ (0x1c) is stored as "\C-\" with a bare backslash,
	// so following keys can be read as part of an escape when the macro is unescaped
	sfx := ""
	for _, b := range typed {
		if b == 0x1c {
			sfx = "/after-control-backslash"
		}
	}
	zzverif.Assert(same, "replay-feeds-the-recorded-keys/"+style+sfx)
}
