package zzverif

import (
	"errors"
	"io"
)

// Script is the stdin of a harness session: it hands over one chunk per Read call and
// then behaves as its End mode says.
type Script struct {
	Chunks [][]byte
	End    int // 0: block (waiting for terminal input), 1: io.EOF, 2: a non-EOF error
	pos    int
	After  int // number of reads served after the script ended
	OnWait func() // called at every Read (an input wait), before data is handed over
}

var ErrInput = errors.New("zzverif: input error")

func (s *Script) Read(p []byte) (int, error) {
	if s.OnWait != nil {
		s.OnWait()
	}
	if s.pos < len(s.Chunks) {
		n := copy(p, s.Chunks[s.pos])
		s.pos++
		return n, nil
	}
	switch s.End {
	case 0:
		Block()
	case 3:
		// end the session without ending the path: the harness observes afterwards
		panic(Blocked{})
	case 1:
		s.After++
		if s.After > 8 {
			Spin("stdin keeps returning EOF but Readline neither returns nor blocks")
		}
		return 0, io.EOF
	default:
		s.After++
		if s.After > 8 {
			Spin("stdin keeps failing but Readline neither returns nor blocks")
		}
		return 0, ErrInput
	}
	return 0, io.EOF
}

func (s *Script) Close() error { return nil }

// Steal removes and returns the next unread chunk (nil if none): bytes that reach the
// program through another read than the script's own (type-ahead sharing a read with a
// terminal reply).
func (s *Script) Steal() []byte {
	if s.pos < len(s.Chunks) {
		c := s.Chunks[s.pos]
		s.pos++
		return c
	}
	return nil
}

// Remaining reports how many chunks have not been read yet.
func (s *Script) Remaining() int { return len(s.Chunks) - s.pos }
