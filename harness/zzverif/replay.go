package zzverif

import (
	"encoding/json"
	"fmt"
	"os"
	"runtime/debug"
	"strings"
	"time"
)

type replayVec struct {
	Harness string `json:"harness"`
	Vector
}

// RunReplay runs every vector of $VERIF_REPLAY against the natively compiled harness and
// prints one "ZZ-OUTCOME <index> <outcome>" line per vector.
func RunReplay(funcs map[string]func()) {
	path := os.Getenv("VERIF_REPLAY")
	if path == "" {
		return
	}
	b, err := os.ReadFile(path)
	if err != nil {
		fmt.Println("ZZ-ERROR", err)
		return
	}
	var vecs []replayVec
	if err := json.Unmarshal(b, &vecs); err != nil {
		fmt.Println("ZZ-ERROR", err)
		return
	}
	// the environment the engine models: no user or system inputrc (INPUTRC names an empty
	// file, which the library reads instead of ~/.inputrc and /etc/inputrc), TERM=xterm
	if f, err := os.CreateTemp("", "zz-empty-inputrc-"); err == nil {
		f.Close()
		os.Setenv("INPUTRC", f.Name())
		defer os.Remove(f.Name())
	}
	os.Setenv("TERM", "xterm")
	for i := range vecs {
		v := &vecs[i]
		f := funcs[v.Harness]
		if f == nil {
			fmt.Fprintf(Out, "ZZ-OUTCOME %d no-such-harness %s\n", i, v.Harness)
			continue
		}
		out := RunOne(f, &v.Vector)
		// counterexamples that depend on Go's map iteration order: retry until the order
		// the engine chose occurs (bounded)
		want := v.Kind + " " + v.Label
		if v.Params["__maporders"] == "1" {
			for try := 0; try < 400 && out != want; try++ {
				out = RunOne(f, &v.Vector)
			}
		} else if v.Kind == "assert" {
			// pty timing can vary natively: give an assertion counterexample three more tries
			for try := 0; try < 3 && out != want; try++ {
				out = RunOne(f, &v.Vector)
			}
		}
		fmt.Fprintf(Out, "ZZ-OUTCOME %d %s\n", i, strings.ReplaceAll(out, "\n", " | "))
	}
}

// RunOne runs one harness under one vector, classifying how it ends.
func RunOne(f func(), v *Vector) string {
	done := make(chan string, 1)
	go func() {
		defer func() {
			r := recover()
			switch x := r.(type) {
			case nil:
				done <- "returned"
			case AssertFailure:
				done <- "assert " + x.Label
			case AssumeFalse:
				done <- "assume-false"
			case Blocked:
				done <- "blocked"
			case SpinDetected:
				done <- "spin " + x.Msg
			default:
				msg := fmt.Sprint(r)
				if e, ok := r.(error); ok {
					msg = e.Error()
				}
				done <- "panic " + msg + " @ " + topRepoFrame(string(debug.Stack()))
			}
		}()
		SetVector(v)
		ResetEnv()
		f()
	}()
	select {
	case o := <-done:
		return o
	case <-time.After(10 * time.Second):
		return "hang (no result after 10s)"
	}
}

func topRepoFrame(stack string) string {
	for _, ln := range strings.Split(stack, "\n") {
		if strings.Contains(ln, "reeflective/readline") && !strings.Contains(ln, "zzverif") && !strings.Contains(ln, "ZZ_") && !strings.HasPrefix(ln, "\t") {
			if i := strings.LastIndex(ln, "("); i > 0 {
				ln = ln[:i]
			}
			return strings.ReplaceAll(ln, "github.com/reeflective/readline", "readline")
		}
	}
	return "?"
}

// ResetEnv clears the environment hooks between vectors.
func ResetEnv() {
	StdoutHook = nil
	StdinHook = nil
	GetenvHook = nil
	WinsizeHook = nil
}
