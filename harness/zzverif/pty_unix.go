//go:build unix

package zzverif

import (
	"bytes"
	"fmt"
	"os"
	"sync"
	"time"

	"golang.org/x/sys/unix"
)

// Native replay terminal: a pty whose slave becomes os.Stdin/os.Stdout and fd 2, and whose
// master is played by a goroutine that discards output and answers cursor-position
// queries through StdinHook (the same hook the engine calls for os.Stdin.Read).

type nativeTTY struct {
	master, slave *os.File
	savedIn       *os.File
	savedOut      *os.File
	savedFd2      int
	mu            sync.Mutex
	out           bytes.Buffer
	initial       unix.Termios
}

var tty *nativeTTY

// Out is where native harness drivers print their results (the real stdout).
var Out = os.Stdout

// NativeTTY installs the pty (once per process) and resets it for a new session.
func NativeTTY() {
	if tty == nil {
		t, err := openTTY()
		if err != nil {
			panic("zzverif: cannot open pty: " + err.Error())
		}
		tty = t
	}
	t := tty
	t.mu.Lock()
	t.out.Reset()
	t.mu.Unlock()
	// fresh cooked-mode termios and window size for every session
	unix.IoctlSetTermios(int(t.slave.Fd()), unix.TCSETS, &t.initial)
	termiosAtStart = t.initial
	cols, rows := 80, 24
	if WinsizeHook != nil {
		cols, rows = WinsizeHook()
	}
	unix.IoctlSetWinsize(int(t.slave.Fd()), unix.TIOCSWINSZ, &unix.Winsize{Row: uint16(rows), Col: uint16(cols)})
	os.Stdin = t.slave
	os.Stdout = t.slave
}

func openTTY() (*nativeTTY, error) {
	mfd, err := unix.Open("/dev/ptmx", unix.O_RDWR|unix.O_NOCTTY|unix.O_CLOEXEC, 0)
	if err != nil {
		return nil, err
	}
	if err := unix.IoctlSetPointerInt(mfd, unix.TIOCSPTLCK, 0); err != nil {
		return nil, err
	}
	n, err := unix.IoctlGetInt(mfd, unix.TIOCGPTN)
	if err != nil {
		return nil, err
	}
	sname := fmt.Sprintf("/dev/pts/%d", n)
	sfd, err := unix.Open(sname, unix.O_RDWR|unix.O_NOCTTY, 0)
	if err != nil {
		return nil, err
	}
	t := &nativeTTY{master: os.NewFile(uintptr(mfd), "ptmx"), slave: os.NewFile(uintptr(sfd), sname)}
	tio, err := unix.IoctlGetTermios(sfd, unix.TCGETS)
	if err != nil {
		return nil, err
	}
	t.initial = *tio
	t.savedIn, t.savedOut = os.Stdin, os.Stdout
	Out = os.Stdout
	// the library reads the terminal size from fd 2
	t.savedFd2, _ = unix.Dup(2)
	unix.Dup2(sfd, 2)
	go t.play()
	return t, nil
}

// play is the terminal: it consumes output and answers ESC[6n.
func (t *nativeTTY) play() {
	buf := make([]byte, 4096)
	var pending []byte
	for {
		n, err := t.master.Read(buf)
		if n > 0 {
			t.mu.Lock()
			t.out.Write(buf[:n])
			t.mu.Unlock()
			pending = append(pending, buf[:n]...)
			for {
				i := bytes.Index(pending, []byte("\x1b[6n"))
				if i < 0 {
					if len(pending) > 3 {
						pending = pending[len(pending)-3:]
					}
					break
				}
				pending = pending[i+4:]
				reply := make([]byte, 256)
				k := 0
				if StdinHook != nil {
					k, _ = StdinHook(reply)
				}
				if k > 0 {
					t.master.Write(reply[:k])
				}
			}
		}
		if err != nil {
			return
		}
	}
}

// NativeOutput returns what the terminal has received so far in this session.
func NativeOutput() string {
	if tty == nil {
		return ""
	}
	tty.mu.Lock()
	defer tty.mu.Unlock()
	return tty.out.String()
}

// NativeTermios returns the current termios of the session terminal.
func NativeTermios() *unix.Termios {
	tio, _ := unix.IoctlGetTermios(int(tty.slave.Fd()), unix.TCGETS)
	return tio
}

var termiosAtStart unix.Termios

func nativeApplyTermios() {
	if tty == nil {
		NativeTTY()
	}
	fd := int(tty.slave.Fd())
	t, err := unix.IoctlGetTermios(fd, unix.TCGETS)
	if err != nil {
		return
	}
	// only bits that every tty accepts unchanged are taken from the vector
	t.Iflag = (t.Iflag &^ 0x3fff) | (Uint32("tio.iflag") & 0x3fff)
	t.Oflag = (t.Oflag &^ 0x5) | (Uint32("tio.oflag") & 0x5)
	t.Lflag = (t.Lflag &^ 0x8fff) | (Uint32("tio.lflag") & 0x8fff)
	cf := Uint32("tio.cflag")
	t.Cflag = (t.Cflag &^ 0x330) | (cf & 0x330)
	t.Cc[unix.VMIN] = Byte("tio.vmin")
	t.Cc[unix.VTIME] = Byte("tio.vtime")
	unix.IoctlSetTermios(fd, unix.TCSETS, t)
	if t2, err := unix.IoctlGetTermios(fd, unix.TCGETS); err == nil {
		termiosAtStart = *t2
	}
}

func nativeTermiosRestored() bool {
	if tty == nil {
		return true
	}
	t, err := unix.IoctlGetTermios(int(tty.slave.Fd()), unix.TCGETS)
	if err != nil {
		return false
	}
	return *t == termiosAtStart
}

// nativeDrain waits until the terminal goroutine has consumed the output written so far.
func nativeDrain() {
	if tty == nil {
		return
	}
	last := -1
	for i := 0; i < 50; i++ {
		time.Sleep(5 * time.Millisecond)
		tty.mu.Lock()
		n := tty.out.Len()
		tty.mu.Unlock()
		if n == last {
			return
		}
		last = n
	}
}
