// Package zzverif is the harness API shared by the symbolic engine (which intercepts these
// functions by name) and native replay (which pops values from a replay vector).
// It is injected into the repository by overlay only; nothing here is part of the library.
package zzverif

import (
	"encoding/json"
	"fmt"
	"os"
	"strconv"
	"unicode"
)

// Vector is one replay vector: nondet values by name and concrete job parameters.
type Vector struct {
	Vals   map[string]uint64 `json:"vals"`
	Params map[string]string `json:"job"`
	Label  string            `json:"label"`
	Kind   string            `json:"kind"`
	Site   string            `json:"site"`
	Msg    string            `json:"msg"`
}

var cur *Vector
var counts map[string]int

// SetVector installs the vector used by subsequent nondet calls (native replay only).
func SetVector(v *Vector) {
	cur = v
	counts = map[string]int{}
}

func LoadVectors(path string) ([]*Vector, error) {
	b, err := os.ReadFile(path)
	if err != nil {
		return nil, err
	}
	var vs []*Vector
	if err := json.Unmarshal(b, &vs); err != nil {
		return nil, err
	}
	return vs, nil
}

func val(name string) uint64 {
	if cur == nil {
		panic("zzverif: no replay vector installed")
	}
	n := counts[name]
	counts[name] = n + 1
	if n > 0 {
		name = fmt.Sprintf("%s#%d", name, n)
	}
	return cur.Vals[name]
}

// AssertFailure, AssumeFalse, Blocked and SpinDetected are the panics by which a native
// replay reports its outcome to the driver.
type AssertFailure struct{ Label string }
type AssumeFalse struct{}
type Blocked struct{}
type SpinDetected struct{ Msg string }

func Byte(name string) byte     { return byte(val(name)) }
func Rune(name string) rune     { return rune(int32(uint32(val(name)))) }
func Int(name string) int       { return int(int64(val(name))) }
func Uint32(name string) uint32 { return uint32(val(name)) }
func Bool(name string) bool     { return val(name)&1 == 1 }

func Assume(c bool) {
	if !c {
		panic(AssumeFalse{})
	}
}

func Assert(c bool, label string) {
	if !c {
		panic(AssertFailure{label})
	}
}

func Reach(label string) {}
func Block()             { panic(Blocked{}) }
func Spin(msg string)    { panic(SpinDetected{msg}) }
func Symbolic() bool     { return false }
func Note(key string, v string) {
	if os.Getenv("VERIF_REPLAY_VERBOSE") != "" {
		fmt.Fprintf(Out, "ZZ-NOTE %s=%q\n", key, v)
	}
}

func Param(name string) string {
	if cur == nil {
		return ""
	}
	return cur.Params[name]
}

func ParamInt(name string) int {
	n, _ := strconv.Atoi(Param(name))
	return n
}

// Choose is an n-way engine decision; natively the choice is part of the vector.
func Choose(name string, n int) int { return int(val(name)) % n }

func Concretize(x int) int { return x }

func IsPrint(r rune) bool { return unicode.IsPrint(r) }

// CaseFixed: r is its own lower- and upper-case form.
func CaseFixed(r rune) bool { return unicode.ToLower(r) == r && unicode.ToUpper(r) == r }

// TextRune assumes r is a scalar value that is Latin-1 or has no case mapping (the cheap
// alphabet: all of ASCII/Latin-1, and every caseless rune of any UTF-8 length).
func TextRune(r rune) bool { return ValidRune(r) && (r <= 0xff || CaseFixed(r)) }

// Hooks by which harnesses play the environment (engine side: called by the stubs of
// os.File, fmt.Print*, ioctl; native side: installed by the pty driver where needed).
var (
	StdoutHook     func(fd int, s string)
	StdinHook      func(buf []byte) (int, error)
	GetenvHook     func(key string) string
	WinsizeHook    func() (cols, rows int)
)

// Runes returns n fresh symbolic runes named prefix0..prefix{n-1}.
func Runes(prefix string, n int) []rune {
	out := make([]rune, n)
	for i := range out {
		out[i] = Rune(prefix + strconv.Itoa(i))
	}
	return out
}

// Bytes returns n fresh symbolic bytes.
func Bytes(prefix string, n int) []byte {
	out := make([]byte, n)
	for i := range out {
		out[i] = Byte(prefix + strconv.Itoa(i))
	}
	return out
}

// ValidRune assumes r is a Unicode scalar value (what []rune(string) can contain,
// except that U+FFFD stands for itself).
func ValidRune(r rune) bool {
	return r >= 0 && r <= 0x10FFFF && !(r >= 0xD800 && r <= 0xDFFF)
}

// IntRange returns a symbolic int constrained to [lo, hi].
func IntRange(name string, lo, hi int) int {
	x := Int(name)
	Assume(x >= lo)
	Assume(x <= hi)
	return x
}

// SymbolicTermios makes the terminal's initial mode settings arbitrary (engine: fresh
// symbols for the four flag words and VMIN/VTIME; native: applied from the vector).
func SymbolicTermios() { nativeApplyTermios() }

// TermiosRestored reports whether the terminal mode settings equal those in force when the
// session (or SymbolicTermios) set them up.
func TermiosRestored() bool { return nativeTermiosRestored() }

// CaptureVT returns a VT model that receives everything the library writes to the
// terminal: through StdoutHook under the engine, from the pty output natively (FinishVT).
func CaptureVT(w int) *VT {
	v := NewVT(w)
	if Symbolic() {
		StdoutHook = func(fd int, s string) { v.Write(s, VTWidth) }
	}
	return v
}

// VTWidth is the display width the captured terminal gives a rune (harnesses whose
// alphabet has wide characters replace it).
var VTWidth = ASCIIWidth

// FinishVT brings the model up to date with all output produced so far.
func FinishVT(v *VT) {
	if !Symbolic() {
		nativeDrain()
		*v = *NewVT(v.W)
		v.Write(NativeOutput(), VTWidth)
	}
}

// TruthfulReports makes the terminal answer cursor-position queries with the position of
// the VT model's cursor (instead of the fixed ESC[1;1R of sessions that do not model the
// screen).
func TruthfulReports(v *VT) {
	StdinHook = func(buf []byte) (int, error) {
		FinishVT(v)
		row, col := v.Row+1, v.Col+1
		return copy(buf, []byte("\x1b["+strconv.Itoa(row)+";"+strconv.Itoa(col)+"R")), nil
	}
}

// Capture collects, as plain text, everything the library writes to the terminal.
type Capture struct{ buf string }

func CaptureOutput() *Capture {
	c := &Capture{}
	if Symbolic() {
		StdoutHook = func(fd int, s string) { c.buf += s }
	}
	return c
}

// Text returns the output produced so far.
func (c *Capture) Text() string {
	if !Symbolic() {
		nativeDrain()
		return NativeOutput()
	}
	return c.buf
}
