package zzverif

// VT is a small VT100 model: cursor addressing, CR/LF, erase, deferred autowrap,
// DECSCUSR. It is ordinary Go code, executed symbolically by the engine and natively in
// replays (fed by StdoutHook in the engine, by the pty output natively).
type VT struct {
	W         int
	Row, Col  int
	Pending   bool // deferred wrap: the last cell of the row has just been filled
	Cells     map[[2]int]rune
	LastStyle string // last DECSCUSR sequence seen ("" if none)
	Hidden    bool
	MaxRow    int
	state     int
	params    []byte
	savedRow  int
	savedCol  int
}

func NewVT(w int) *VT { return &VT{W: w, Cells: map[[2]int]rune{}} }

func (v *VT) put(r rune, width int) {
	if width <= 0 {
		return
	}
	if v.Pending || v.Col+width > v.W {
		v.Row++
		v.Col = 0
		v.Pending = false
	}
	v.Cells[[2]int{v.Row, v.Col}] = r
	for k := 1; k < width; k++ {
		v.Cells[[2]int{v.Row, v.Col + k}] = 0
	}
	v.Col += width
	if v.Col >= v.W {
		v.Col = v.W - 1
		v.Pending = true
	}
	if v.Row > v.MaxRow {
		v.MaxRow = v.Row
	}
}

func (v *VT) eraseLine(row, from, to int) {
	for c := from; c <= to; c++ {
		delete(v.Cells, [2]int{row, c})
	}
}

func (v *VT) csi(final byte) {
	// parameters: digits and ';', optional '?' prefix and ' ' intermediate
	n := 0
	has := false
	private := false
	space := false
	for _, b := range v.params {
		switch {
		case b >= '0' && b <= '9':
			n = n*10 + int(b-'0')
			has = true
		case b == '?':
			private = true
		case b == ' ':
			space = true
		case b == ';':
			n, has = 0, false
		}
	}
	arg := n
	if !has {
		arg = 1
	}
	switch {
	case final == 'A':
		v.Row -= arg
		if v.Row < 0 {
			v.Row = 0
		}
		v.Pending = false
	case final == 'B':
		v.Row += arg
		v.Pending = false
		if v.Row > v.MaxRow {
			v.MaxRow = v.Row
		}
	case final == 'C':
		v.Col += arg
		if v.Col > v.W-1 {
			v.Col = v.W - 1
		}
		v.Pending = false
	case final == 'D':
		v.Col -= arg
		if v.Col < 0 {
			v.Col = 0
		}
		v.Pending = false
	case final == 'H':
		v.Row, v.Col, v.Pending = 0, 0, false
	case final == 'K':
		switch {
		case !has || n == 0:
			v.eraseLine(v.Row, v.Col, v.W-1)
		case n == 1:
			v.eraseLine(v.Row, 0, v.Col)
		default:
			v.eraseLine(v.Row, 0, v.W-1)
		}
	case final == 'J':
		if !has || n == 0 {
			v.eraseLine(v.Row, v.Col, v.W-1)
			for k := range v.Cells {
				if k[0] > v.Row {
					delete(v.Cells, k)
				}
			}
		} else {
			v.Cells = map[[2]int]rune{}
		}
	case final == 'q' && space:
		v.LastStyle = "\x1b[" + string(v.params) + "q"
	case final == 'h' && private:
		v.Hidden = false
	case final == 'l' && private:
		v.Hidden = true
	}
}

// Write feeds terminal output to the model. width gives the display width of a rune.
func (v *VT) Write(s string, width func(rune) int) {
	for _, r := range s {
		switch v.state {
		case 1: // after ESC
			switch r {
			case '[':
				v.state = 2
				v.params = v.params[:0]
			case '7':
				v.savedRow, v.savedCol = v.Row, v.Col
				v.state = 0
			case '8':
				v.Row, v.Col, v.Pending = v.savedRow, v.savedCol, false
				v.state = 0
			default:
				v.state = 0
			}
			continue
		case 2: // CSI
			if r >= 0x40 && r <= 0x7e {
				v.csi(byte(r))
				v.state = 0
			} else {
				v.params = append(v.params, byte(r))
			}
			continue
		}
		switch r {
		case 0x1b:
			v.state = 1
		case '\r':
			v.Col = 0
			v.Pending = false
		case '\n':
			v.Row++
			v.Pending = false
			if v.Row > v.MaxRow {
				v.MaxRow = v.Row
			}
		case '\b':
			if v.Col > 0 {
				v.Col--
			}
			v.Pending = false
		case 0x07, 0x00:
		default:
			v.put(r, width(r))
		}
	}
}

// ASCIIWidth: every rune is one cell wide (harnesses that use it assume printable ASCII).
func ASCIIWidth(r rune) int { return 1 }
