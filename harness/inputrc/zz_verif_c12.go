package inputrc

import (
	"os"

	"github.com/reeflective/readline/internal/zzverif"
)

// zzFill replaces every '?' of skel by a fresh symbolic scalar rune and every '@' by a
// fresh raw symbolic byte (which may form invalid UTF-8).
func zzFill(skel string) []byte {
	var out []byte
	k := 0
	for i := 0; i < len(skel); i++ {
		switch skel[i] {
		case '?':
			r := zzverif.Rune("h" + string(rune('0'+k)))
			if zzverif.Param("alpha") == "any" {
				zzverif.Assume(zzverif.ValidRune(r))
			} else {
				zzverif.Assume(zzverif.TextRune(r))
			}
			out = append(out, []byte(string(r))...)
			k++
		case '@':
			out = append(out, zzverif.Byte("h"+string(rune('0'+k))))
			k++
		default:
			out = append(out, skel[i])
		}
	}
	return out
}

var zzDefaultCfg *Config

// ZZSetup_DefaultConfig builds the default configuration once (engine checkpoint).
func ZZSetup_DefaultConfig() { zzDefaultCfg = NewDefaultConfig() }

// ZZ_C12_Parse: parsing any text terminates and reports problems as error values.
// params: skel (text with ? = symbolic rune, @ = symbolic byte), inc (include graph:
// none|self|mutual|missing), handler (config|default).
func ZZ_C12_Parse() {
	text := zzFill(zzverif.Param("skel"))
	inc := zzverif.Param("inc")
	cfg := NewConfig()
	if zzverif.Param("handler") == "default" {
		if !zzverif.Symbolic() || zzDefaultCfg == nil {
			ZZSetup_DefaultConfig()
		}
		cfg = zzDefaultCfg
	}
	other := []byte("$include a\n")
	cfg.ReadFileFunc = func(name string) ([]byte, error) {
		switch inc {
		case "self":
			return text, nil
		case "mutual":
			if name == "b" {
				return other, nil
			}
			return text, nil
		}
		return nil, os.ErrNotExist
	}
	opts := []Option{WithApp("app"), WithTerm("xterm"), WithMode("emacs")}
	if zzverif.Bool("strict") {
		opts = append(opts, WithStrict(true))
	}
	if zzverif.Bool("halt") {
		opts = append(opts, WithHaltOnErr(true))
	}
	zzverif.Reach("parse")
	_ = ParseBytes(text, cfg, opts...)
	zzverif.Reach("done")
}
