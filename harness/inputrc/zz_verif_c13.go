package inputrc

import (
	"strconv"

	"github.com/reeflective/readline/internal/zzverif"
)

type zzFrame struct {
	parent bool // enclosing blocks all active
	cond   bool // this $if's own condition
	inElse bool
}

func (f zzFrame) active() bool { return f.parent && (f.cond != f.inElse) }

// ZZ_C13_Cond: a well-formed program of d directives, each chosen by the engine among
// $if mode=/term=/app, $else, $endif, set keymap, set var, key bind, macro bind; the
// parser's (mode, term, app) are chosen too. The resulting Config must equal what a
// reference evaluator (stack of effective activity) computes.
func ZZ_C13_Cond() {
	d := zzverif.ParamInt("d")
	keymaps := []string{"emacs", "vi-insert"}
	// names are "m<c>", "t<c>", "a<c>" with <c> a symbolic lower-case letter: whether an $if
	// condition holds is the solver's choice
	letter := func(name string) string {
		c := zzverif.Byte(name)
		zzverif.Assume(c >= 'a' && c <= 'z')
		return string(rune(c))
	}
	// letters of either case: mode= and term= values compare exactly, application names
	// without regard to case (the application registers its name in lower case)
	anyCase := func(name string) string {
		if zzverif.Param("case") != "1" {
			return letter(name)
		}
		c := zzverif.Byte(name)
		zzverif.Assume((c >= 'a' && c <= 'z') || (c >= 'A' && c <= 'Z'))
		return string(rune(c))
	}
	lower := func(s string) string {
		b := []byte(s)
		for i, c := range b {
			if c >= 'A' && c <= 'Z' {
				b[i] = c + 32
			}
		}
		return string(b)
	}
	pmode := "m" + anyCase("pmode")
	pterm := "t" + anyCase("pterm")
	papp := "a" + letter("papp")

	text := ""
	// reference state
	stack := []zzFrame{}
	curActive := func() bool {
		if len(stack) == 0 {
			return true
		}
		return stack[len(stack)-1].active()
	}
	keymap := "emacs"
	type expect struct {
		keymap string
		action string
		macro  bool
	}
	binds := map[string]expect{} // sequence -> expectation (active binds only)
	vars := map[string]bool{}    // variable -> value (active sets only)

	// known finding at the pinned commit: an $if opened inside an inactive block is evaluated
	// on its own. Programs containing such a block are asserted under labels of their own.
	nestedInInactive := false
	// ... and a 'set keymap' inside such a block leaks into the binds that follow it
	keymapLeak := false
	inNestedInactive := func() bool {
		for _, f := range stack {
			if !f.parent {
				return true
			}
		}
		return false
	}
	// kind 9: $include of a file that holds a conditional block of its own with one binding
	// in its $if part and one in its $else part. The library parses an included file with a
	// fresh parser (own condition stack, keymap emacs), and only when the including block
	// is active.
	nkinds := 8
	if zzverif.Param("inc") == "1" {
		nkinds = 9
	}
	incLetter := ""
	included := false
	for i := 0; i < d; i++ {
		kind := zzverif.IntRange("kind"+strconv.Itoa(i), 0, nkinds)
		idx := strconv.Itoa(i)
		// prune programs that can no longer be closed within the bound
		zzverif.Assume(len(stack) <= d-i)
		switch kind {
		case 0:
			m := "m" + anyCase("m"+idx)
			text += "$if mode=" + m + "\n"
			if !curActive() {
				nestedInInactive = true
			}
			stack = append(stack, zzFrame{parent: curActive(), cond: m == pmode})
		case 1:
			t := "t" + anyCase("t"+idx)
			text += "$if term=" + t + "\n"
			if !curActive() {
				nestedInInactive = true
			}
			stack = append(stack, zzFrame{parent: curActive(), cond: t == pterm})
		case 2:
			a := "a" + anyCase("a"+idx)
			text += "$if " + a + "\n"
			if !curActive() {
				nestedInInactive = true
			}
			stack = append(stack, zzFrame{parent: curActive(), cond: lower(a) == papp})
		case 3:
			zzverif.Assume(len(stack) > 0 && !stack[len(stack)-1].inElse)
			text += "$else\n"
			stack[len(stack)-1].inElse = true
		case 4:
			zzverif.Assume(len(stack) > 0)
			text += "$endif\n"
			stack = stack[:len(stack)-1]
		case 5:
			k := keymaps[0]
			if zzverif.Bool("k" + idx) {
				k = keymaps[1]
			}
			text += "set keymap " + k + "\n"
			if curActive() {
				keymap = k
			} else if inNestedInactive() {
				keymapLeak = true
			}
		case 6:
			on := zzverif.Bool("v" + idx)
			val := "off"
			if on {
				val = "on"
			}
			text += "set var" + idx + " " + val + "\n"
			if curActive() {
				vars["var"+idx] = on
			}
		case 7:
			text += "\"\\C-x" + idx + "\": fn" + idx + "\n"
			if curActive() {
				binds["\x18"+idx] = expect{keymap, "fn" + idx, false}
			}
		case 8:
			text += "Meta-" + idx + ": \"mac" + idx + "\"\n"
			if curActive() {
				binds[string(rune(0x80|int(idx[0])))] = expect{keymap, "mac" + idx, true}
			}
		case 9:
			zzverif.Assume(!included) // one include per program
			included = true
			incLetter = letter("inc")
			text += "$include zzfile\n"
			if curActive() {
				if "m"+incLetter == pmode {
					binds["\x18i"] = expect{"emacs", "fninc", false}
				} else {
					binds["\x18e"] = expect{"emacs", "fnelse", false}
				}
			}
		}
	}
	// well-formed programs only: every $if closed
	zzverif.Assume(len(stack) == 0)
	zzverif.Reach("wellformed")

	cfg := NewConfig()
	cfg.ReadFileFunc = func(name string) ([]byte, error) {
		return []byte("$if mode=m" + incLetter + "\n\"\\C-xi\": fninc\n$else\n\"\\C-xe\": fnelse\n$endif\n"), nil
	}
	err := ParseBytes([]byte(text), cfg, WithMode(pmode), WithTerm(pterm), WithApp(papp))
	zzverif.Note("program", text)
	zzverif.Assert(err == nil, "no-error-on-wellformed")

	// every expected bind is present in its keymap with action and macro flag as written
	nExpected := 0
	ksfx := ""
	if keymapLeak {
		ksfx = "/keymap-set-in-if-nested-in-inactive-block"
	}
	for seq, e := range binds {
		b, ok := cfg.Binds[e.keymap][seq]
		zzverif.Assert(ok && b.Action == e.action && b.Macro == e.macro, "active-bind-recorded"+ksfx)
		nExpected++
	}
	// and nothing else was bound anywhere
	nFound := 0
	for _, km := range cfg.Binds {
		nFound += len(km)
	}
	sfx := ""
	if nestedInInactive {
		sfx = "/if-nested-in-inactive-block"
	}
	zzverif.Assert(nFound == nExpected, "inactive-bind-has-no-effect"+sfx)
	for name, val := range vars {
		v, ok := cfg.Vars[name].(bool)
		zzverif.Assert(ok && v == val, "active-set-recorded")
	}
	zzverif.Assert(len(cfg.Vars) == len(vars), "inactive-set-has-no-effect"+sfx)
}
