package inputrc

import "github.com/reeflective/readline/internal/zzverif"

// ZZ_C19_Escape: Unescape(Escape(s)) == s for every sequence of n scalar values.
func ZZ_C19_Escape() {
	n := zzverif.ParamInt("n")
	macro := zzverif.Param("macro") == "1"
	rs := zzverif.Runes("r", n)
	for _, r := range rs {
		zzverif.Assume(zzverif.ValidRune(r))
		zzverif.Assume(r <= 0xff || zzverif.IsPrint(r))
	}
	s := string(rs)
	var esc string
	if macro {
		esc = EscapeMacro(s)
	} else {
		esc = Escape(s)
	}
	zzverif.Reach("escaped")
	back := Unescape(esc)
	zzverif.Assert(back == s, "roundtrip")
}
