package inputrc

import "github.com/reeflective/readline/internal/zzverif"

// ZZ_C19_Escape: Unescape(Escape(s)) == s for every sequence of n scalar values.
func ZZ_C19_Escape() {
	n := zzverif.ParamInt("n")
	macro := zzverif.Param("macro") == "1"
	rs := zzverif.Runes("r", n)
	for _, r := range rs {
		zzverif.Assume(zzverif.ValidRune(r))
		zzverif.Assume(r <= 0xff || zzverif.IsPrint(r))
	}
	s := string(rs)
	var esc string
	if macro {
		esc = EscapeMacro(s)
	} else {
		esc = Escape(s)
	}
	zzverif.Reach("escaped")
	back := Unescape(esc)
	// Known finding at the pinned commit: meta characters that are not printable after
	// Demeta (0x80-0x9F, 0xAD, 0xFF) are written as "\M-\x%2x", which Unescape cannot read back.
	// Sequences containing one of them are asserted under their own label so that any other
	// failing sequence is still reported.
	metaNonPrint := false
	for _, r := range rs {
		if (r >= 0x80 && r <= 0x9f) || r == 0xad || r == 0xff {
			metaNonPrint = true
		}
	}
	// Second known finding: C-\ (0x1c) is written as "\C-\" with a bare backslash, so the
	// text that follows can be read as part of an escape ("\C-\M-" is the control-meta prefix).
	ctrlBackslash := false
	for _, r := range rs {
		if r == 0x1c || r == 0xdc {
			ctrlBackslash = true
		}
	}
	if metaNonPrint {
		zzverif.Assert(back == s, "roundtrip-meta-nonprintable")
	} else if ctrlBackslash {
		zzverif.Assert(back == s, "roundtrip-control-backslash")
	} else {
		zzverif.Assert(back == s, "roundtrip")
	}
}
