package readline

import (
	"strings"

	"github.com/reeflective/readline/internal/core"
	"github.com/reeflective/readline/inputrc"

	"github.com/reeflective/readline/internal/history"
	"github.com/reeflective/readline/internal/zzverif"
)

func zzAscii(prefix string, n int) []rune {
	rs := zzverif.Runes(prefix, n)
	for _, r := range rs {
		zzverif.Assume(r >= 0x20 && r < 0x7f)
	}
	return rs
}

// ZZ_C09_Nav: a sequence of w history navigation/search commands on a history of h
// symbolic entries and an in-progress text T. After every command the buffer must be T or
// a stored entry (the one a position model predicts for pure up/down/beginning/end
// walks; a matching one for the search commands), and the entries themselves are intact.
// params: h, el (entry length), tl (length of T), w, set (nav|search|mixed)
func ZZ_C09_Nav() {
	nh := zzverif.ParamInt("h")
	el := zzverif.ParamInt("el")
	tl := zzverif.ParamInt("tl")
	w := zzverif.ParamInt("w")
	set := zzverif.Param("set")

	entries := make([]string, nh)
	for i := range entries {
		entries[i] = string(zzAscii("e"+string(rune('0'+i))+"_", el))
	}
	T := string(zzAscii("t", tl))

	script := &zzverif.Script{}
	rl := zzSession(script)
	src := history.NewInMemoryHistory()

	// command alphabet
	type cmd struct{ name, key string }
	nav := []cmd{{"previous-history", "\x10"}, {"next-history", "\x0e"}, {"beginning-of-history", "\x1c"}, {"end-of-history", "\x1d"}}
	search := []cmd{{"history-search-backward", "\x1c"}, {"history-search-forward", "\x1d"},
		{"history-substring-search-backward", "\x1e"}, {"history-substring-search-forward", "\x1f"}}
	var alphabet []cmd
	switch set {
	case "nav":
		alphabet = nav
	case "search":
		alphabet = search
	default:
		alphabet = []cmd{nav[0], nav[1], search[0], search[2]}
	}

	chosen := make([]int, w)
	step := -1
	j := 0         // model position: 0 = in-progress text, k = k-th newest entry
	exact := true  // position model applies (only pure walks so far)
	prevBuf := T   // buffer and cursor before the command that has just run
	prevCur := tl
	// prev (optional): an earlier Readline call on the same shell — "zq" typed and accepted
	// (it becomes the newest entry), "zq" typed and interrupted, or the newest entry recalled
	// and accepted. Positions and remembered lines of that call must not leak into this one.
	prevCall := zzverif.Param("prev")
	// the history source is bound before Readline is called, as applications do
	for _, e := range entries {
		src.Write(e)
	}
	rl.History.Add("zz", src)
	if prevCall != "" {
		ends := map[string][][]byte{
			"accept":  {[]byte("z"), []byte("q"), []byte("\r")},
			"abort":   {[]byte("z"), []byte("q"), []byte("\x03")},
			"recall":  {[]byte("z"), []byte("\x10"), []byte("\r")},
			"walkend": {[]byte("z"), []byte("\x10"), []byte("\x10"), []byte("\x0e"), []byte("\x03")},
		}
		first := &zzverif.Script{Chunks: ends[prevCall]}
		core.Stdin = first
		rl.Readline()
		zzverif.Reach("first-call-returned")
		core.Stdin = script
		entries = nil
		for i := 0; i < src.Len(); i++ {
			e, _ := src.GetLine(i)
			entries = append(entries, e)
		}
		nh = len(entries)
	}
	wait := 0
	script.OnWait = func() {
		if wait == 0 {
			wait++

			// the in-progress text arrives as the user's typing does: one self-insert per
			// character — which asks for the undo-history save to be skipped, as the real
			// command does (emacs.go selfInsert: History.SkipSave) — followed by the save call
			// of the main loop. Typed text is therefore NOT in the undo history until a
			// command that saves runs: the history commands must cope with exactly that.
			for _, r := range T {
				rl.line.Insert(rl.cursor.Pos(), r)
				rl.cursor.Inc()
				rl.History.SkipSave()
				rl.History.SaveWithCommand(inputrc.Bind{Action: "self-insert"})
			}
			for _, c := range alphabet {
				rl.Config.Bind("emacs", c.key, c.name, false)
			}
			var keys []byte
			for i := 0; i < w; i++ {
				chosen[i] = zzverif.IntRange("c"+string(rune('0'+i)), 0, len(alphabet)-1)
			}
			for i := 0; i < w; i++ {
				keys = append(keys, alphabet[chosen[i]].key...)
				// one key per read so that every command is followed by an input wait
				script.Chunks = append(script.Chunks, []byte(alphabet[chosen[i]].key))
			}
			_ = keys
			return
		}
		step = wait - 1 // index of the command that has just run
		wait++
		if step < w {
			name := alphabet[chosen[step]].name
			buf := string(*rl.line)
			zzverif.Note("step"+string(rune('0'+step)), name+" -> "+buf)
			// entries are never modified
			for i, e := range entries {
				got, _ := src.GetLine(i)
				zzverif.Assert(src.Len() == nh && got == e, "entries-unchanged")
			}
			// the buffer is the in-progress text or a stored entry
			isEntry := false
			for _, e := range entries {
				if buf == e {
					isEntry = true
				}
			}
			zzverif.Assert(buf == T || isEntry, "buffer-is-text-or-entry/"+name)
			switch name {
			case "previous-history":
				if j < nh {
					j++
				}
			case "next-history":
				if j > 0 {
					j--
				}
			case "beginning-of-history":
				j = nh
			case "end-of-history":
				// the code comment and the GNU manual differ (in-progress line vs newest
				// entry): both are accepted
				if nh > 0 && j > 0 {
					switch {
					case buf == T && buf == entries[nh-1]:
						exact = false // cannot tell which of the two readings was taken
					case buf == T:
						j = 0
					default:
						j = 1
					}
				} else {
					j = 0
				}
			default:
				exact = false
				// the search text is the line up to the cursor when the command was invoked
				text := string([]rune(prevBuf)[:prevCur])
				if strings.Contains(name, "substring") {
					zzverif.Assert(buf == T || buf == prevBuf || strings.Contains(buf, text), "search-result-contains-text/"+name)
				} else {
					// repeated searches may keep the original search text (T up to its cursor)
					ok := buf == T || buf == prevBuf || strings.HasPrefix(buf, text) || strings.HasPrefix(buf, T)
					// Known finding at the pinned commit: these two commands read their search
					// text from the undo record kept for history position 0, which is empty unless
					// a walk was made before (and whose cursor Sources.Save pulls back by one), so
					// the typed text is partly or wholly ignored.
					zzverif.Assert(ok, "search-result-has-prefix/"+name)
				}
			}
			if exact {
				want := T
				if j > 0 {
					want = entries[nh-j]
				}
				zzverif.Assert(buf == want, "walk-shows-entry-of-position/"+name)
			}
		}
		prevBuf = string(*rl.line)
		prevCur = rl.cursor.Pos()
		if prevCur > len([]rune(prevBuf)) {
			prevCur = len([]rune(prevBuf))
		}
		if step+1 >= w {
			zzverif.Reach("all-steps")
		}
	}
	rl.Readline()
}
