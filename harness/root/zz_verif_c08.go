package readline

import (
	"strings"

	"github.com/reeflective/readline/internal/core"

	"github.com/reeflective/readline/internal/history"
	"github.com/reeflective/readline/internal/zzverif"
)

// ZZ_C08_Cmd: the accept commands themselves, typed through key bindings in a real
// Readline call, with two bound in-memory sources holding symbolic entries and an optional
// AcceptMultiline callback with a symbolic answer. After Readline returns, every source
// must hold what the recording rule says.
// params: cmd (accept-line|accept-and-hold|operate-and-get-next|
// accept-and-infer-next-history|abort|end-of-file), ml (none|sym), n (line length), k (prior entries per source)
func ZZ_C08_Cmd() {
	cmd := zzverif.Param("cmd")
	ml := zzverif.Param("ml")
	n := zzverif.ParamInt("n")
	k := zzverif.ParamInt("k")

	text := string(zzAsciiBlank("l", n))
	srcs := []history.Source{history.NewInMemoryHistory(), history.NewInMemoryHistory()}
	var before [][]string
	for s := range srcs {
		var old []string
		for e := 0; e < k; e++ {
			entry := string(zzAsciiBlank("e"+string(rune('0'+s))+string(rune('0'+e))+"_", 1))
			old = append(old, entry)
		}
		before = append(before, old)
	}
	script := &zzverif.Script{}
	rl := zzSession(script)
	accepts := false
	if ml == "sym" {
		accepts = zzverif.Bool("multiline-complete")
		rl.AcceptMultiline = func(line []rune) bool { return accepts }
	} else {
		rl.AcceptMultiline = nil
		accepts = true
	}
	// prev (optional): an earlier Readline call on the same shell, in which the line "pp" is
	// left through that command; what the sources hold afterwards is the checked call's
	// starting point
	prevCmd := zzverif.Param("prev")
	if prevCmd != "" {
		for s, src := range srcs {
			for _, e := range before[s] {
				src.Write(e)
			}
			rl.History.Add("src"+string(rune('0'+s)), src)
		}
		first := &zzverif.Script{}
		fw := 0
		first.OnWait = func() {
			if fw == 0 {
				rl.line.Set([]rune("pp")...)
				rl.cursor.Set(2)
				keys := zzKeysFor(rl, "emacs", prevCmd)
				zzverif.Assume(keys != "")
				first.Chunks = [][]byte{[]byte(keys)}
			} else {
				zzverif.Assume(false) // the earlier call did not return
			}
			fw++
		}
		core.Stdin = first
		rl.Readline()
		zzverif.Reach("first-call-returned")
		core.Stdin = script
		for s, src := range srcs {
			before[s] = nil
			for i := 0; i < src.Len(); i++ {
				e, _ := src.GetLine(i)
				before[s] = append(before[s], e)
			}
		}
	}
	wait := 0
	script.OnWait = func() {
		if wait == 0 {
			for s, src := range srcs {
				if prevCmd != "" {
					break
				}
				for _, e := range before[s] {
					src.Write(e)
				}
				rl.History.Add("src"+string(rune('0'+s)), src)
			}
			rl.line.Set([]rune(text)...)
			rl.cursor.Set(n)
			keys := zzKeysFor(rl, "emacs", cmd)
			zzverif.Assume(keys != "")
			script.Chunks = [][]byte{[]byte(keys)}
		} else {
			// the command did not make Readline return (e.g. incomplete multi-line input)
			zzverif.Reach("still-editing")
			for s, src := range srcs {
				zzverif.Assert(src.Len() == len(before[s]), "nothing-recorded-while-editing/"+cmd)
			}
			zzverif.Block()
		}
		wait++
	}
	_, err := rl.Readline()
	zzverif.Reach("returned")
	records := (cmd == "accept-line" || cmd == "accept-and-hold") && err == nil && accepts
	trimmed := strings.TrimSpace(text)
	for s, src := range srcs {
		old := before[s]
		want := records && trimmed != ""
		if want && len(old) > 0 && strings.TrimSpace(old[len(old)-1]) == trimmed {
			want = false
		}
		if want {
			zzverif.Reach("recorded-expected")
			zzverif.Assert(src.Len() == len(old)+1, "recorded-exactly-once/"+cmd)
			if src.Len() == len(old)+1 {
				got, _ := src.GetLine(len(old))
				zzverif.Assert(strings.TrimSpace(got) == trimmed, "recorded-text/"+cmd)
			}
		} else {
			zzverif.Assert(src.Len() == len(old), "not-recorded/"+cmd)
		}
	}
}

// zzAsciiBlank: printable ASCII plus blank characters.
func zzAsciiBlank(prefix string, n int) []rune {
	rs := zzverif.Runes(prefix, n)
	for _, r := range rs {
		zzverif.Assume((r >= 0x20 && r < 0x7f) || r == '\t')
	}
	return rs
}
