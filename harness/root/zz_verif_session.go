package readline

import (
	"github.com/reeflective/readline/internal/history"
	"sort"

	"github.com/reeflective/readline/internal/core"
	"github.com/reeflective/readline/internal/keymap"
	"github.com/reeflective/readline/internal/zzverif"
)

var zzShell *Shell

// ZZSetup_Shell builds the shell once; the resulting heap is the engine's checkpoint.
// Natively (replay) it is called at the start of every harness run.
func ZZSetup_Shell() {
	zzShell = NewShell()
}

// ZZ_ListCommands returns every registered command name (sorted).
func ZZ_ListCommands() []string {
	ZZSetup_Shell()
	var names []string
	for name := range zzShell.Keymap.Commands() {
		names = append(names, name)
	}
	sort.Strings(names)
	return names
}

var zzShell2 *Shell

// ZZSetup_TwoShells builds two independent shells (for differential harnesses).
func ZZSetup_TwoShells() {
	zzShell = NewShell()
	zzShell2 = NewShell()
}

// zzSession prepares the shell for one Readline call fed by script.
func zzSession(script *zzverif.Script) *Shell {
	if !zzverif.Symbolic() || zzShell == nil {
		ZZSetup_Shell()
	}
	return zzSessionOn(zzShell, script)
}

func zzSessionOn(rl *Shell, script *zzverif.Script) *Shell {
	core.Stdin = script
	// the terminal answers every cursor position query with row 1, column 1
	zzverif.StdinHook = func(buf []byte) (int, error) {
		return copy(buf, []byte("\x1b[1;1R")), nil
	}
	if !zzverif.Symbolic() {
		zzverif.NativeTTY()
	}
	return rl
}

// zzKeysFor returns the shortest (then lexicographically first) key sequence bound to cmd
// in keymap km, binding a probe sequence first when there is none.
func zzKeysFor(rl *Shell, km string, cmd string) string {
	best := ""
	for seq, bind := range rl.Config.Binds[km] {
		if bind.Action != cmd || bind.Macro || seq == "" {
			continue
		}
		// ESC-prefixed and meta sequences collide with the converted self-insert binds of
		// 0x80-0xFF in the dispatcher (a C03 finding); steps use sequences free of that.
		if zzHasEscOrMeta(seq) {
			continue
		}
		if best == "" || len(seq) < len(best) || (len(seq) == len(best) && seq < best) {
			best = seq
		}
	}
	if best != "" {
		return best
	}
	// unbound in this keymap: bind it to a probe sequence nothing else uses
	for _, probe := range []string{"\x1c", "\x1d", "\x1e", "\x00"} {
		if _, used := rl.Config.Binds[km][probe]; !used {
			rl.Config.Bind(km, probe, cmd, false)
			return probe
		}
	}
	return ""
}

func zzHasEscOrMeta(seq string) bool {
	for _, r := range seq {
		if r == 0x1b || r >= 0x80 {
			return true
		}
	}
	return false
}

// zzArgKeys are the keys that enter a numeric argument in the given main keymap.
func zzArgKeys(km string, arg string) string {
	if arg == "" {
		return ""
	}
	if km == keymap.ViCommand {
		return arg
	}
	return "\x1b" + arg // M-<digit> / M--
}

// zzBuffer makes n symbolic runes over all Unicode scalar values.
func zzBuffer(prefix string, n int) []rune {
	rs := zzverif.Runes(prefix, n)
	for _, r := range rs {
		if zzverif.Param("alpha") == "ascii" {
			// 7-bit characters except NUL (which Line.Insert strips by design)
			zzverif.Assume(r > 0 && r < 0x80)
		} else {
			zzverif.Assume(zzverif.ValidRune(r))
		}
	}
	return rs
}

func zzSameRunes(a, b []rune) bool {
	if len(a) != len(b) {
		return false
	}
	for i := range a {
		if a[i] != b[i] {
			return false
		}
	}
	return true
}

// ZZ_Step: one inductive step. From an arbitrary editor state (buffer, cursor, mark, main
// keymap, optional local context and numeric argument) one command, typed through its key
// binding, runs inside the real Readline loop. Asserted at every later input wait: the
// C06 invariants; at the final wait, buffer purity for commands listed as movements.
//
// params: mode, cmd, n, arg, hist (1: a non-empty history), prefix (keys typed before: local context), pure (1: assert
// the buffer is unchanged), argbyte (1: the command reads a key, supply a symbolic one).
func ZZ_Step() {
	mode := zzverif.Param("mode")
	cmd := zzverif.Param("cmd")
	n := zzverif.ParamInt("n")
	arg := zzverif.Param("arg")
	prefix := zzverif.Param("prefix")
	pure := zzverif.Param("pure") == "1"
	inv := zzverif.Param("inv") != "0"

	buf := zzBuffer("b", n)
	script := &zzverif.Script{}
	rl := zzSession(script)
	wait := 0
	inCmd := false
	ranCmd := false
	fed := 0
	inOp := false
	var before []rune

	script.OnWait = func() {
		if wait == 0 {
			wait++
			rl.line.Set(zzCopy(buf)...)
			mark := zzverif.IntRange("mark", 0, n)
			rl.cursor.Set(mark)
			rl.cursor.SetMark()
			rl.cursor.Set(zzverif.IntRange("pos", 0, n))
			if mode != keymap.Emacs {
				rl.Keymap.SetMain(mode)
			}
			if mode == keymap.ViCommand {
				rl.cursor.CheckCommand()
			}
			before = append([]rune(nil), (*rl.line)...)
			if zzverif.Param("hist") == "1" {
				// a history (normally empty after start-up) that holds a line extending the
				// buffer, a line equal to it, and an unrelated one
				src := history.NewInMemoryHistory()
				src.Write("zz unrelated")
				src.Write(string(buf))
				src.Write(string(buf) + "x yz w")
				rl.History.Add("zzhist", src)
			}
			lk := mode
			if zzverif.Param("lk") != "" {
				lk = zzverif.Param("lk") // the command is looked up in this (local) keymap
			}
			keys := zzKeysFor(rl, lk, cmd)
			zzverif.Assume(keys != "")
			if op := zzverif.Param("op"); op != "" {
				// the pending operator that the prefix key starts: it may read a key too
				origOp := rl.Keymap.Commands()[op]
				rl.Keymap.Register(map[string]func(){op: func() {
					inOp = true
					origOp()
					inOp = false
				}})
			}
			// wrap the command to know whether a wait happens inside it
			orig := rl.Keymap.Commands()[cmd]
			if orig != nil { // (the default vi-opp keymap binds j/k to names that no command has)
				rl.Keymap.Register(map[string]func(){cmd: func() {
					inCmd = true
					ranCmd = true
					orig()
					inCmd = false
				}})
			}
			script.Chunks = [][]byte{[]byte(prefix + zzArgKeys(mode, arg) + keys)}
			zzverif.Note("keys", prefix+zzArgKeys(mode, arg)+keys)
			return
		}
		wait++
		// invariants at every input wait
		pos := rl.cursor.Pos()
		length := rl.line.Len()
		if inv {
			zzverif.Assert(pos >= 0 && pos <= length, "cursor-in-buffer")
		}
		if inv && rl.selection.Active() {
			bpos, epos := rl.selection.Pos()
			zzverif.Assert(bpos >= 0 && bpos <= length && epos >= 0 && epos <= length, "selection-in-buffer")
		}
		if inCmd && fed == 0 {
			// the command asked for a key: hand it an arbitrary one
			fed = 1
			script.Chunks = append(script.Chunks, []byte{zzverif.Byte("argkey")})
			return
		}
		if inOp && !inCmd && fed < 2 {
			// the pending operator asked for a key (e.g. the new surround character)
			fed = 2
			script.Chunks = append(script.Chunks, []byte{zzverif.Byte("argkey2")})
			return
		}
		if script.Remaining() > 0 {
			return
		}
		zzverif.Reach("final-wait")
		if ranCmd {
			zzverif.Reach("command-ran")
		}
		if inv && rl.Keymap.Main() == keymap.ViCommand && !inCmd && length > 0 && !rl.cursor.OnEmptyLine() {
			zzverif.Assert(pos < length, "vi-command-cursor-on-char")
		}
		zzverif.Note("after", string(*rl.line))
		if ranCmd {
			zzverif.Note("ran", "yes")
		} else {
			zzverif.Note("ran", "no")
		}
		if pure && !inCmd {
			zzverif.Assert(zzSameRunes(before, *rl.line), "movement-keeps-buffer")
		}
	}
	rl.Readline()
	zzverif.Reach("returned")
}

// zzCopy: Line.Set keeps the slice it is given and the editing primitives write into its
// backing array, so the harness hands over a copy and keeps its own reference intact.
func zzCopy(rs []rune) []rune { return append([]rune(nil), rs...) }

// ZZ_C06_ViSearch: vi command mode with a history; '?' or '/' opens the search minibuffer,
// k symbolic letters are typed as the pattern, Enter runs the search. The C06 invariants are
// asserted at every input wait — on the buffer the API reports — and, back in command mode
// on a non-empty line, the cursor must be on a character.
// params: key (? or /), k (pattern length), el (entry length)
func ZZ_C06_ViSearch() {
	key := zzverif.Param("key")
	k := zzverif.ParamInt("k")
	el := zzverif.ParamInt("el")
	small := func(prefix string, n int) []rune {
		rs := zzverif.Runes(prefix, n)
		for _, r := range rs {
			zzverif.Assume(r >= 'a' && r <= 'c')
		}
		return rs
	}
	entry := small("e", el)
	pat := small("s", k)
	script := &zzverif.Script{}
	rl := zzSession(script)
	// the history source is bound before Readline is called, as applications do
	src := history.NewInMemoryHistory()
	src.Write("zz")
	src.Write(string(entry))
	rl.History.Add("zzhist", src)
	wait := 0
	script.OnWait = func() {
		if wait == 0 {
			wait++
			rl.Keymap.SetMain(keymap.ViCommand)
			script.Chunks = [][]byte{[]byte(key)}
			for _, r := range pat {
				script.Chunks = append(script.Chunks, []byte(string(r)))
			}
			script.Chunks = append(script.Chunks, []byte("\r"))
			return
		}
		wait++
		pos := rl.cursor.Pos()
		length := rl.line.Len()
		zzverif.Assert(pos >= 0 && pos <= length, "cursor-in-buffer")
		if script.Remaining() > 0 {
			return
		}
		zzverif.Reach("search-done")
		zzverif.Note("after", string(*rl.line))
		searching, _, _ := rl.completer.NonIncrementallySearching()
		if rl.Keymap.Main() == keymap.ViCommand && rl.Keymap.Local() == "" && !searching && length > 0 && !rl.cursor.OnEmptyLine() {
			zzverif.Assert(pos < length, "vi-command-cursor-on-char")
		}
	}
	rl.Readline()
	zzverif.Reach("returned")
}
