package readline

import (
	"github.com/reeflective/readline/internal/core"
	"github.com/reeflective/readline/internal/zzverif"
)

// zzSession prepares the checkpointed shell for one Readline call fed by script.
func zzSession(script *zzverif.Script) *Shell {
	rl := zzShell
	core.Stdin = script
	// the terminal answers cursor position queries with row 1, col 1
	zzverif.StdinHook = func(buf []byte) (int, error) {
		return copy(buf, []byte("\x1b[1;1R")), nil
	}
	return rl
}

func ZZ_Smoke_Readline() {
	n := zzverif.ParamInt("n")
	keys := zzverif.Bytes("k", n)
	script := &zzverif.Script{Chunks: [][]byte{keys, []byte("\r")}}
	rl := zzSession(script)
	line, err := rl.Readline()
	zzverif.Reach("returned")
	_ = line
	_ = err
}
