package readline

import (
	"github.com/reeflective/readline/internal/core"
	"github.com/reeflective/readline/internal/history"
	"github.com/reeflective/readline/internal/zzverif"
)

// ZZ_C07_Undo: s symbolic editing steps (insert one of three characters, backspace,
// kill-line, yank, kill-word, beginning/end-of-line, and - in variant "walk" - undo) are
// typed one key per read; G collects the buffers shown at the waits. Then a tail runs:
//   walk:   |G|+1 undos; every undo result must be in G and the last must be G[0] ("")
//   redo:   n undos then n redos restore the buffer that preceded them (when every undo
//           changed the text)
//   branch: one undo, one edit, then redo must leave the text alone
// param prev (optional): an earlier Readline call on the same shell precedes the checked
// one — typed (text + Enter), hist (text, previous-history, Enter on the history line),
// abort (text + Ctrl-C), undo (text, undo, Enter), walkback (text, up, down, Enter). "The line
// being edited" is the line of the checked call: its initial content is empty and nothing of
// the earlier call may be shown by undo.
// params: s, variant, prev
func ZZ_C07_Undo() {
	s := zzverif.ParamInt("s")
	variant := zzverif.Param("variant")

	type op struct {
		name string
		key  string
	}
	ops := []op{{"a", "a"}, {"b", "b"}, {"space", " "}, {"backspace", "\x7f"}, {"kill-line", "\x0b"}, {"yank", "\x19"},
		{"kill-word", "\x1c"}, {"bol", "\x01"}, {"eol", "\x05"}, {"unix-line-discard", "\x15"}}
	undoKey, redoKey := "\x1f", "\x1d"
	if variant == "walk" {
		ops = append(ops, op{"undo", undoKey})
	}
	if variant == "walk-deep" {
		// a smaller alphabet allows longer sequences
		ops = []op{{"a", "a"}, {"b", "b"}, {"backspace", "\x7f"}, {"kill-line", "\x0b"}, {"undo", undoKey}}
		variant = "walk"
	}
	if variant == "crash" {
		// C01: short editing sequences with undo and redo freely mixed; nothing is asserted,
		// the engine reports panics / hangs
		ops = []op{{"a", "a"}, {"backspace", "\x7f"}, {"kill-line", "\x0b"}, {"yank", "\x19"}, {"undo", undoKey}, {"redo", redoKey}}
	}
	script := &zzverif.Script{}
	rl := zzSession(script)

	var G []string
	inG := func(b string) bool {
		for _, g := range G {
			if g == b {
				return true
			}
		}
		return false
	}
	chosen := make([]int, s)
	wait := 0
	phase := 0 // 0: symbolic steps, 1: tail
	tail := 0
	var beforeUndos string
	nUndo := 0
	allChanged := true
	prev := ""
	script.OnWait = func() {
		buf := string(*rl.line)
		zzverif.Note("w"+string(rune('0'+wait)), buf+" after "+rl.Keymap.ActiveCommand().Action)
		switch {
		case wait == 0:
			rl.Config.Bind("emacs", "\x1c", "kill-word", false)
			rl.Config.Bind("emacs", redoKey, "redo", false)
			G = append(G, buf)
			for i := 0; i < s; i++ {
				chosen[i] = zzverif.IntRange("op"+string(rune('0'+i)), 0, len(ops)-1)
				script.Chunks = append(script.Chunks, []byte(ops[chosen[i]].key))
			}
		case phase == 0:
			step := wait - 1
			if variant == "crash" {
				if step == s-1 {
					zzverif.Reach("steps-done")
					zzverif.Block()
				}
				break
			}
			if ops[chosen[step]].name == "undo" {
				zzverif.Assert(inG(buf), "undo-shows-an-earlier-state")
			}
			G = append(G, buf)
			if step == s-1 {
				phase = 1
				zzverif.Reach("steps-done")
				switch variant {
				case "walk":
					for i := 0; i <= len(G); i++ {
						script.Chunks = append(script.Chunks, []byte(undoKey))
					}
				case "redo":
					beforeUndos = buf
					nUndo = zzverif.IntRange("nundo", 1, 2)
					for i := 0; i < nUndo; i++ {
						script.Chunks = append(script.Chunks, []byte(undoKey))
					}
					for i := 0; i < nUndo; i++ {
						script.Chunks = append(script.Chunks, []byte(redoKey))
					}
				case "branch":
					script.Chunks = append(script.Chunks, []byte(undoKey), []byte("a"), []byte(redoKey))
				}
				prev = buf
			}
		default:
			tail++
			switch variant {
			case "walk":
				zzverif.Assert(inG(buf), "undo-shows-an-earlier-state")
				if script.Remaining() == 0 {
					zzverif.Assert(buf == G[0], "repeated-undo-reaches-initial-content")
				}
			case "redo":
				if tail <= nUndo {
					zzverif.Assert(inG(buf), "undo-shows-an-earlier-state")
					if buf == prev {
						allChanged = false
					}
				} else if script.Remaining() == 0 && allChanged {
					zzverif.Reach("redo-checked")
					zzverif.Assert(buf == beforeUndos, "n-undos-then-n-redos-restore-the-text")
				}
			case "branch":
				if tail == 3 {
					zzverif.Assert(buf == prev, "edit-after-undo-discards-redo")
				}
			}
			prev = buf
		}
		wait++
	}
	if prevCall := zzverif.Param("prev"); prevCall != "" {
		src := history.NewInMemoryHistory()
		src.Write("hh")
		rl.History.Add("zz", src)
		first := &zzverif.Script{}
		switch prevCall {
		case "typed":
			first.Chunks = [][]byte{[]byte("x"), []byte("y"), []byte("\r")}
		case "hist":
			first.Chunks = [][]byte{[]byte("x"), []byte("y"), []byte("\x10"), []byte("\r")}
		case "abort":
			first.Chunks = [][]byte{[]byte("x"), []byte("y"), []byte("\x03")}
		case "undo":
			first.Chunks = [][]byte{[]byte("x"), []byte("y"), []byte(undoKey), []byte("\r")}
		case "walkback":
			first.Chunks = [][]byte{[]byte("x"), []byte("y"), []byte("\x10"), []byte("\x0e"), []byte("\r")}
		}
		core.Stdin = first
		rl.Readline()
		zzverif.Reach("first-call-returned")
		core.Stdin = script
	}
	rl.Readline()
}
