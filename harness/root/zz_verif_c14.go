package readline

import (
	"github.com/reeflective/readline/internal/zzverif"
	"strings"
)

// zzWordStart: index after the last blank before position p (0 if none).
func zzWordStart(b []rune, p int) int {
	w := 0
	for i := 0; i < p; i++ {
		if b[i] == ' ' || b[i] == '\t' {
			w = i + 1
		}
	}
	return w
}

// ZZ_C14_Local: buffer b (n symbolic characters over letters, blank, quote, a multi-byte
// letter) with the cursor at p; the application completer offers m candidates that extend
// the word before the cursor. TAB (complete) is typed k times, then Ctrl-C. After every
// TAB the buffer must be b[:w] + candidate + b[p:] with the cursor right after the
// candidate; after Ctrl-C buffer and cursor are b and p again and Readline still waits.
// params: n, m, k, abort (0|1)
func ZZ_C14_Local() {
	n := zzverif.ParamInt("n")
	m := zzverif.ParamInt("m")
	k := zzverif.ParamInt("k")
	abort := zzverif.Param("abort") == "1"

	b := zzverif.Runes("b", n)
	multibyte := false
	for _, r := range b {
		zzverif.Assume(r == 'a' || r == 'b' || r == ' ' || r == '\'' || r == 0xe9)
		if r >= 0x80 {
			multibyte = true
		}
	}
	p := zzverif.IntRange("p", 0, n)
	w := zzWordStart(b, p)
	word := string(b[w:p])
	tails := []string{"x", "yz", "w"}
	style := zzverif.Param("style")
	var cands []string
	for i := 0; i < m; i++ {
		if style == "icase" {
			// candidates that match the word only when case is ignored
			cands = append(cands, strings.ToUpper(word)+tails[i])
		} else {
			cands = append(cands, word+tails[i])
		}
	}
	script := &zzverif.Script{}
	rl := zzSession(script)
	// the ways an application can describe its candidates
	rl.Completer = func(line []rune, cursor int) Completions {
		switch style {
		case "described":
			var args []string
			for i, c := range cands {
				args = append(args, c, "description "+string(rune('a'+i)))
			}
			return CompleteValuesDescribed(args...)
		case "nospace":
			return CompleteValues(cands...).NoSpace()
		case "tags":
			first := CompleteValues(cands[:1]...).Tag("first")
			if len(cands) > 1 {
				return first.Merge(CompleteValues(cands[1:]...).Tag("others"))
			}
			return first
		case "suffix":
			return CompleteValues(cands...).Suffix("/")
		}
		return CompleteValues(cands...)
	}
	// TAB runs complete (default), or menu-complete when the user bound it so (bash style)
	keys := "\t"
	menuCmd := zzverif.Param("cmd") == "menu-complete"
	sfx := ""
	if multibyte {
		sfx = "/multibyte-word"
	}
	for _, r := range b {
		if r == '\'' && sfx == "" {
			sfx = "/with-quote"
		}
	}
	wait := 0
	menuActive := false
	script.OnWait = func() {
		switch {
		case wait == 0:
			rl.line.Set(zzCopy(b)...)
			rl.cursor.Set(p)
			if style == "icase" {
				rl.Config.Set("completion-ignore-case", true)
			}
			if menuCmd {
				rl.Config.Bind("emacs", keys, "menu-complete", false)
			}
			for i := 0; i < k; i++ {
				script.Chunks = append(script.Chunks, []byte(keys))
			}
			if abort {
				script.Chunks = append(script.Chunks, []byte("\x03"))
			}
		case wait <= k:
			// after the wait-th TAB a candidate is inserted
			got := []rune(string(*rl.line))
			// no candidate offered/inserted (the engine found none for this position) is not
			// a locality violation
			matched := zzSameRunes(got, b) && rl.cursor.Pos() == p
			menuActive = !matched && m > 1
			if !matched {
				zzverif.Reach("candidate-inserted")
			}
			for _, c := range cands {
				// the word becomes the candidate's value (with the suffix the application asked
				// for); a single candidate is accepted at once, with a space appended
				values := []string{c}
				if style == "suffix" {
					values = []string{c + "/"}
				}
				if m == 1 {
					values = append(values, values[0]+" ")
				}
				for _, v := range values {
					want := append(append(append([]rune{}, b[:w]...), []rune(v)...), b[p:]...)
					if zzSameRunes(got, want) && rl.cursor.Pos() == w+len([]rune(v)) {
						matched = true
					}
				}
			}
			zzverif.Note("buffer", string(got))
			zzverif.Assert(matched, "completion-only-rewrites-the-word"+sfx)
		case abort && wait == k+1 && menuActive:
			zzverif.Reach("aborted")
			zzverif.Assert(zzSameRunes(*rl.line, b) && rl.cursor.Pos() == p, "abort-restores-buffer-and-cursor"+sfx)
		}
		wait++
	}
	rl.Readline()
	if abort && menuActive {
		zzverif.Assert(false, "readline-continues-after-menu-interrupt"+sfx)
	}
}

// ZZ_C14_Again: completion is used more than once on the same line, with an edit in between,
// and the first candidate offered is the typed word itself. Keys: TAB TAB (two candidates
// inserted in turn), a typed letter (accepts the inserted candidate and edits the line), TAB
// (first candidate = the word as typed), a typed letter. The completer derives its candidates
// from the line and cursor it is given: the word before the cursor, then that word + "x",
// then + "yz". After every key the buffer must be the buffer of the previous wait with only
// the word before the cursor rewritten (TAB) or with the letter inserted at the cursor
// (letter; the accepted candidate stays).
// params: n
func ZZ_C14_Again() {
	n := zzverif.ParamInt("n")
	b := zzverif.Runes("b", n)
	for _, r := range b {
		zzverif.Assume(r == 'a' || r == 'b' || r == ' ')
	}
	p := zzverif.IntRange("p", 0, n)
	candsFor := func(line []rune, cursor int) []string {
		w := zzWordStart(line, cursor)
		word := string(line[w:cursor])
		if word == "" {
			return []string{"x", "yz"}
		}
		return []string{word, word + "x", word + "yz"}
	}
	script := &zzverif.Script{}
	rl := zzSession(script)
	rl.Completer = func(line []rune, cursor int) Completions {
		return CompleteValues(candsFor(line, cursor)...)
	}
	keys := []string{"\t", "\t", "a", "\t", "b"}
	var pre []rune // buffer and cursor at the wait before the key that has just run
	prePos := 0
	var base []rune // buffer and cursor when the current run of TABs started
	basePos := 0
	wait := 0
	script.OnWait = func() {
		got := append([]rune(nil), (*rl.line)...)
		pos := rl.cursor.Pos()
		if wait == 0 {
			rl.line.Set(zzCopy(b)...)
			rl.cursor.Set(p)
			for _, k := range keys {
				script.Chunks = append(script.Chunks, []byte(k))
			}
			pre, prePos = zzCopy(b), p
			base, basePos = zzCopy(b), p
			wait++
			return
		}
		key := keys[wait-1]
		if key == "\t" {
			// the word before the cursor of the line the TABs started on becomes a candidate
			w := zzWordStart(base, basePos)
			ok := zzSameRunes(got, base) && pos == basePos
			for _, v := range candsFor(base, basePos) {
				want := append(append(append([]rune{}, base[:w]...), []rune(v)...), base[basePos:]...)
				if zzSameRunes(got, want) && pos == w+len([]rune(v)) {
					ok = true
				}
			}
			zzverif.Note("tab"+string(rune('0'+wait)), string(got))
			zzverif.Assert(ok, "completion-only-rewrites-the-word/repeated")
		} else {
			// a typed letter accepts what is inserted and goes in at the cursor
			want := append(append(append([]rune{}, pre[:prePos]...), []rune(key)...), pre[prePos:]...)
			zzverif.Note("key"+string(rune('0'+wait)), string(got))
			zzverif.Assert(zzSameRunes(got, want) && pos == prePos+1, "typing-accepts-the-candidate-and-inserts/repeated")
			base, basePos = got, pos
		}
		pre, prePos = got, pos
		if wait == len(keys) {
			zzverif.Reach("all-keys")
			zzverif.Block()
		}
		wait++
	}
	rl.Readline()
}
