package readline

import (
	"github.com/reeflective/readline/internal/zzverif"
)

// zzWordStart: index after the last blank before position p (0 if none).
func zzWordStart(b []rune, p int) int {
	w := 0
	for i := 0; i < p; i++ {
		if b[i] == ' ' || b[i] == '\t' {
			w = i + 1
		}
	}
	return w
}

// ZZ_C14_Local: buffer b (n symbolic characters over letters, blank, quote, a multi-byte
// letter) with the cursor at p; the application completer offers m candidates that extend
// the word before the cursor. TAB (complete) is typed k times, then Ctrl-C. After every
// TAB the buffer must be b[:w] + candidate + b[p:] with the cursor right after the
// candidate; after Ctrl-C buffer and cursor are b and p again and Readline still waits.
// params: n, m, k, abort (0|1)
func ZZ_C14_Local() {
	n := zzverif.ParamInt("n")
	m := zzverif.ParamInt("m")
	k := zzverif.ParamInt("k")
	abort := zzverif.Param("abort") == "1"

	b := zzverif.Runes("b", n)
	multibyte := false
	for _, r := range b {
		zzverif.Assume(r == 'a' || r == 'b' || r == ' ' || r == '\'' || r == 0xe9)
		if r >= 0x80 {
			multibyte = true
		}
	}
	p := zzverif.IntRange("p", 0, n)
	w := zzWordStart(b, p)
	word := string(b[w:p])
	tails := []string{"x", "yz", "w"}
	var cands []string
	for i := 0; i < m; i++ {
		cands = append(cands, word+tails[i])
	}
	script := &zzverif.Script{}
	rl := zzSession(script)
	rl.Completer = func(line []rune, cursor int) Completions { return CompleteValues(cands...) }

	sfx := ""
	if multibyte {
		sfx = "/multibyte-word"
	}
	for _, r := range b {
		if r == '\'' && sfx == "" {
			sfx = "/with-quote"
		}
	}
	wait := 0
	menuActive := false
	script.OnWait = func() {
		switch {
		case wait == 0:
			rl.line.Set(zzCopy(b)...)
			rl.cursor.Set(p)
			for i := 0; i < k; i++ {
				script.Chunks = append(script.Chunks, []byte("\t"))
			}
			if abort {
				script.Chunks = append(script.Chunks, []byte("\x03"))
			}
		case wait <= k:
			// after the wait-th TAB a candidate is inserted
			got := []rune(string(*rl.line))
			// no candidate offered/inserted (the engine found none for this position) is not
			// a locality violation
			matched := zzSameRunes(got, b) && rl.cursor.Pos() == p
			menuActive = !matched && m > 1
			if !matched {
				zzverif.Reach("candidate-inserted")
			}
			for _, c := range cands {
				want := append(append(append([]rune{}, b[:w]...), []rune(c)...), b[p:]...)
				if zzSameRunes(got, want) && rl.cursor.Pos() == w+len([]rune(c)) {
					matched = true
				}
				// a single candidate is accepted at once, with a space appended
				if m == 1 {
					want2 := append(append(append([]rune{}, b[:w]...), []rune(c+" ")...), b[p:]...)
					if zzSameRunes(got, want2) && rl.cursor.Pos() == w+len([]rune(c))+1 {
						matched = true
					}
				}
			}
			zzverif.Note("buffer", string(got))
			zzverif.Assert(matched, "completion-only-rewrites-the-word"+sfx)
		case abort && wait == k+1 && menuActive:
			zzverif.Reach("aborted")
			zzverif.Assert(zzSameRunes(*rl.line, b) && rl.cursor.Pos() == p, "abort-restores-buffer-and-cursor"+sfx)
		}
		wait++
	}
	rl.Readline()
	if abort && menuActive {
		zzverif.Assert(false, "readline-continues-after-menu-interrupt"+sfx)
	}
}
