package readline

import (
	"github.com/reeflective/readline/internal/keymap"
	"github.com/reeflective/readline/internal/zzverif"
)

// ZZ_C16_KillYank: from an arbitrary buffer/cursor/mark, one kill command K runs (typed
// through its binding), then yank (emacs) or vi-put-before (vi). Asserted: what K removed
// is one contiguous range, it is exactly the kill-ring top, the cursor is where the range
// was, and yanking there restores the buffer.
// params: mode, cmd, n, arg, alpha (ascii|text)
func ZZ_C16_KillYank() {
	mode := zzverif.Param("mode")
	cmd := zzverif.Param("cmd")
	n := zzverif.ParamInt("n")
	arg := zzverif.Param("arg")

	buf := zzverif.Runes("b", n)
	for _, r := range buf {
		if zzverif.Param("alpha") == "text" {
			zzverif.Assume(zzverif.TextRune(r) && r != 0)
		} else {
			zzverif.Assume(r > 0 && r < 0x80)
		}
	}
	script := &zzverif.Script{}
	rl := zzSession(script)
	wait := 0
	ran := false
	var before, afterKill []rune
	var killed []rune
	killPos := 0
	// label suffixes keep classes of findings at the pinned commit apart
	sfx := ""
	if arg != "" {
		sfx = "/with-count"
	}
	yankCmd := "yank"
	if mode == keymap.ViCommand {
		yankCmd = "vi-put-before"
	}

	script.OnWait = func() {
		switch wait {
		case 0:
			rl.line.Set(zzCopy(buf)...)
			if cmd == "kill-region" {
				rl.cursor.Set(zzverif.IntRange("mark", 0, n))
				rl.cursor.SetMark()
			}
			rl.cursor.Set(zzverif.IntRange("pos", 0, n))
			if mode != keymap.Emacs {
				rl.Keymap.SetMain(mode)
			}
			if mode == keymap.ViCommand {
				rl.cursor.CheckCommand()
			}
			before = append([]rune(nil), (*rl.line)...)
			keys := zzKeysFor(rl, mode, cmd)
			zzverif.Assume(keys != "")
			orig := rl.Keymap.Commands()[cmd]
			rl.Keymap.Register(map[string]func(){cmd: func() { ran = true; orig() }})
			script.Chunks = [][]byte{[]byte(zzArgKeys(mode, arg) + keys)}
		case 1:
			zzverif.Assume(ran)
			zzverif.Reach("killed")
			afterKill = append([]rune(nil), (*rl.line)...)
			killed = append([]rune(nil), rl.Buffers.GetKill()...)
			killPos = rl.cursor.Pos()
			if zzSameRunes(before, afterKill) {
				// nothing was removed: the statement says nothing
				zzverif.Reach("kill-removed-nothing")
				zzverif.Block()
			}
			// b' = b[:i] + b[j:] with kill text b[i:j]
			removed := len(before) - len(afterKill)
			if sfx == "" {
				for _, r := range before {
					if r == '\n' {
						sfx = "/buffer-with-newline"
					}
				}
			}
			if sfx == "" {
				for _, r := range before {
					if r >= 0x80 {
						sfx = "/multibyte-text"
					}
				}
			}
			zzverif.Assert(removed > 0 && removed == len(killed), "kill-ring-holds-what-was-removed/"+cmd+sfx)
			found := false
			atPoint := false
			for i := 0; i+removed <= len(before); i++ {
				if zzSameRunes(before[:i], afterKill[:i]) && zzSameRunes(before[i+removed:], afterKill[i:]) && zzSameRunes(before[i:i+removed], killed) {
					found = true
					if killPos == i {
						atPoint = true
					}
				}
			}
			zzverif.Assert(found, "kill-removes-one-range-equal-to-ring-top/"+cmd+sfx)
			if mode == keymap.Emacs {
				zzverif.Assert(atPoint, "cursor-left-where-text-was-killed/"+cmd+sfx)
			}
			if !atPoint {
				// the cursor is not where the text was (vi pulls it back onto a character at
				// the end of the line): "yanking at the same point" does not apply
				zzverif.Reach("cursor-moved-away")
				zzverif.Block()
			}
			keys := zzKeysFor(rl, mode, yankCmd)
			zzverif.Assume(keys != "")
			script.Chunks = append(script.Chunks, []byte(keys))
		case 2:
			zzverif.Reach("yanked")
			zzverif.Note("before", string(before))
			zzverif.Note("afterkill", string(afterKill))
			zzverif.Note("afteryank", string(*rl.line))
			zzverif.Assert(zzSameRunes(before, *rl.line), "yank-restores-buffer/"+cmd+sfx)
			_ = killPos
			zzverif.Block()
		}
		wait++
	}
	rl.Readline()
}
