package readline

import (
	"github.com/reeflective/readline/internal/core"
	"github.com/reeflective/readline/internal/keymap"
	"github.com/reeflective/readline/internal/zzverif"
)

// ZZ_C16_KillYank: from an arbitrary buffer/cursor/mark, one kill command K runs (typed
// through its binding), then yank (emacs) or vi-put-before (vi). Asserted: what K removed
// is one contiguous range, it is exactly the kill-ring top, the cursor is where the range
// was, and yanking there restores the buffer.
// params: mode, cmd, n, arg, alpha (ascii|text)
func ZZ_C16_KillYank() {
	mode := zzverif.Param("mode")
	cmd := zzverif.Param("cmd")
	n := zzverif.ParamInt("n")
	arg := zzverif.Param("arg")

	buf := zzverif.Runes("b", n)
	for _, r := range buf {
		if zzverif.Param("alpha") == "text" {
			zzverif.Assume(zzverif.TextRune(r) && r != 0)
		} else {
			zzverif.Assume(r > 0 && r < 0x80)
		}
	}
	script := &zzverif.Script{}
	rl := zzSession(script)
	wait := 0
	ran := false
	var before, afterKill []rune
	var killed []rune
	killPos := 0
	// label suffixes keep classes of findings at the pinned commit apart
	sfx := ""
	if arg != "" {
		sfx = "/with-count"
	}
	yankCmd := "yank"
	if mode == keymap.ViCommand {
		yankCmd = "vi-put-before"
	}

	script.OnWait = func() {
		switch wait {
		case 0:
			rl.line.Set(zzCopy(buf)...)
			if cmd == "kill-region" {
				rl.cursor.Set(zzverif.IntRange("mark", 0, n))
				rl.cursor.SetMark()
			}
			rl.cursor.Set(zzverif.IntRange("pos", 0, n))
			if mode != keymap.Emacs {
				rl.Keymap.SetMain(mode)
			}
			if mode == keymap.ViCommand {
				rl.cursor.CheckCommand()
			}
			before = append([]rune(nil), (*rl.line)...)
			keys := zzKeysFor(rl, mode, cmd)
			zzverif.Assume(keys != "")
			orig := rl.Keymap.Commands()[cmd]
			rl.Keymap.Register(map[string]func(){cmd: func() { ran = true; orig() }})
			script.Chunks = [][]byte{[]byte(zzArgKeys(mode, arg) + keys)}
		case 1:
			zzverif.Assume(ran)
			zzverif.Reach("killed")
			afterKill = append([]rune(nil), (*rl.line)...)
			killed = append([]rune(nil), rl.Buffers.GetKill()...)
			killPos = rl.cursor.Pos()
			if zzSameRunes(before, afterKill) {
				// nothing was removed: the statement says nothing
				zzverif.Reach("kill-removed-nothing")
				zzverif.Block()
			}
			// b' = b[:i] + b[j:] with kill text b[i:j]
			removed := len(before) - len(afterKill)
			if sfx == "" {
				for _, r := range before {
					if r == '\n' {
						sfx = "/buffer-with-newline"
					}
				}
			}
			if sfx == "" {
				for _, r := range before {
					if r >= 0x80 {
						sfx = "/multibyte-text"
					}
				}
			}
			zzverif.Assert(removed > 0 && removed == len(killed), "kill-ring-holds-what-was-removed/"+cmd+sfx)
			found := false
			atPoint := false
			for i := 0; i+removed <= len(before); i++ {
				if zzSameRunes(before[:i], afterKill[:i]) && zzSameRunes(before[i+removed:], afterKill[i:]) && zzSameRunes(before[i:i+removed], killed) {
					found = true
					if killPos == i {
						atPoint = true
					}
				}
			}
			zzverif.Assert(found, "kill-removes-one-range-equal-to-ring-top/"+cmd+sfx)
			if mode == keymap.Emacs {
				zzverif.Assert(atPoint, "cursor-left-where-text-was-killed/"+cmd+sfx)
			}
			if !atPoint {
				// the cursor is not where the text was (vi pulls it back onto a character at
				// the end of the line): "yanking at the same point" does not apply
				zzverif.Reach("cursor-moved-away")
				zzverif.Block()
			}
			keys := zzKeysFor(rl, mode, yankCmd)
			zzverif.Assume(keys != "")
			script.Chunks = append(script.Chunks, []byte(keys))
		case 2:
			zzverif.Reach("yanked")
			zzverif.Note("before", string(before))
			zzverif.Note("afterkill", string(afterKill))
			zzverif.Note("afteryank", string(*rl.line))
			zzverif.Assert(zzSameRunes(before, *rl.line), "yank-restores-buffer/"+cmd+sfx)
			_ = killPos
			zzverif.Block()
		}
		wait++
	}
	rl.Readline()
}

// ZZ_C16_TwoKills: "after several kills, yank inserts the most recent one". From an arbitrary
// buffer two kill commands K1, K2 run (the cursor — and the mark for kill-region — is moved
// to an arbitrary place in between, as movement commands would), then yank / vi-put-before.
// Asserted: the ring top after K2 is exactly what K2 removed, and the yank inserts exactly
// that text at the cursor.
// params: mode, cmd, cmd2, n
func ZZ_C16_TwoKills() {
	mode := zzverif.Param("mode")
	cmd1 := zzverif.Param("cmd")
	cmd2 := zzverif.Param("cmd2")
	n := zzverif.ParamInt("n")

	buf := zzverif.Runes("b", n)
	for _, r := range buf {
		zzverif.Assume(r > 0 && r < 0x80)
	}
	script := &zzverif.Script{}
	rl := zzSession(script)
	wait := 0
	ran1, ran2 := false, false
	var after1, after2, killed2 []rune
	pos3 := 0
	sfx := ""
	yankCmd := "yank"
	if mode == keymap.ViCommand {
		yankCmd = "vi-put-before"
	}
	place := func(tag string, cmd string) {
		length := rl.line.Len()
		if cmd == "kill-region" {
			rl.cursor.Set(zzverif.IntRange("mark"+tag, 0, length))
			rl.cursor.SetMark()
		}
		rl.cursor.Set(zzverif.IntRange("pos"+tag, 0, length))
		if mode == keymap.ViCommand {
			rl.cursor.CheckCommand()
		}
	}

	script.OnWait = func() {
		switch wait {
		case 0:
			rl.line.Set(zzCopy(buf)...)
			if mode != keymap.Emacs {
				rl.Keymap.SetMain(mode)
			}
			place("1", cmd1)
			keys := zzKeysFor(rl, mode, cmd1)
			keys2 := zzKeysFor(rl, mode, cmd2)
			zzverif.Assume(keys != "" && keys2 != "")
			orig1 := rl.Keymap.Commands()[cmd1]
			orig2 := rl.Keymap.Commands()[cmd2]
			if cmd1 == cmd2 {
				rl.Keymap.Register(map[string]func(){cmd1: func() {
					if ran1 {
						ran2 = true
					}
					ran1 = true
					orig1()
				}})
			} else {
				rl.Keymap.Register(map[string]func(){cmd1: func() { ran1 = true; orig1() }})
				rl.Keymap.Register(map[string]func(){cmd2: func() { ran2 = true; orig2() }})
			}
			script.Chunks = [][]byte{[]byte(keys)}
		case 1:
			zzverif.Assume(ran1)
			after1 = append([]rune(nil), (*rl.line)...)
			if len(after1) == len(buf) {
				zzverif.Block() // the first kill removed nothing: not "several kills"
			}
			zzverif.Reach("first-kill-removed-text")
			place("2", cmd2)
			script.Chunks = append(script.Chunks, []byte(zzKeysFor(rl, mode, cmd2)))
		case 2:
			zzverif.Assume(ran2)
			after2 = append([]rune(nil), (*rl.line)...)
			killed2 = append([]rune(nil), rl.Buffers.GetKill()...)
			removed := len(after1) - len(after2)
			if removed == 0 && zzSameRunes(after1, after2) {
				zzverif.Block() // the second kill removed nothing
			}
			zzverif.Reach("second-kill-removed-text")
			for _, r := range killed2 {
				if r == '\n' {
					sfx = "/killed-text-with-newline" // vi puts such text back linewise (listed finding)
				}
			}
			found := false
			for i := 0; i+removed <= len(after1) && removed > 0; i++ {
				if zzSameRunes(after1[:i], after2[:i]) && zzSameRunes(after1[i+removed:], after2[i:]) && zzSameRunes(after1[i:i+removed], killed2) {
					found = true
				}
			}
			zzverif.Assert(found, "ring-top-is-the-most-recent-kill/"+cmd2+sfx)
			pos3 = rl.cursor.Pos()
			script.Chunks = append(script.Chunks, []byte(zzKeysFor(rl, mode, yankCmd)))
		case 3:
			zzverif.Reach("yanked")
			want := append(append(append([]rune(nil), after2[:pos3]...), killed2...), after2[pos3:]...)
			zzverif.Note("after1", string(after1))
			zzverif.Note("after2", string(after2))
			zzverif.Note("afteryank", string(*rl.line))
			zzverif.Assert(zzSameRunes(want, *rl.line), "yank-inserts-the-most-recent-kill/"+cmd2+sfx)
			zzverif.Block()
		}
		wait++
	}
	rl.Readline()
}

// ZZ_C16_AcrossCalls: the kill ring outlives the line. A kill command runs in one Readline
// call, which is then left by Enter; in the next call on the same shell yank / vi-put-before on
// the empty line must insert exactly what the kill removed.
// params: mode, cmd, n
func ZZ_C16_AcrossCalls() {
	mode := zzverif.Param("mode")
	cmd := zzverif.Param("cmd")
	n := zzverif.ParamInt("n")
	buf := zzverif.Runes("b", n)
	for _, r := range buf {
		zzverif.Assume(r >= 0x20 && r < 0x7f)
	}
	yankCmd := "yank"
	if mode == keymap.ViCommand {
		yankCmd = "vi-put-before"
	}
	first := &zzverif.Script{}
	rl := zzSession(first)
	var killed []rune
	removed := 0
	ran := false
	w1 := 0
	first.OnWait = func() {
		switch w1 {
		case 0:
			rl.line.Set(zzCopy(buf)...)
			if cmd == "kill-region" {
				rl.cursor.Set(zzverif.IntRange("mark", 0, n))
				rl.cursor.SetMark()
			}
			rl.cursor.Set(zzverif.IntRange("pos", 0, n))
			if mode != keymap.Emacs {
				rl.Keymap.SetMain(mode)
			}
			if mode == keymap.ViCommand {
				rl.cursor.CheckCommand()
			}
			keys := zzKeysFor(rl, mode, cmd)
			zzverif.Assume(keys != "")
			orig := rl.Keymap.Commands()[cmd]
			rl.Keymap.Register(map[string]func(){cmd: func() { ran = true; orig() }})
			first.Chunks = [][]byte{[]byte(keys)}
		case 1:
			zzverif.Assume(ran)
			removed = n - rl.line.Len()
			killed = append([]rune(nil), rl.Buffers.GetKill()...)
			if removed <= 0 {
				zzverif.Block() // nothing was killed
			}
			zzverif.Assert(removed == len(killed), "kill-ring-holds-what-was-removed/"+cmd+"/across-calls")
			first.Chunks = append(first.Chunks, []byte("\r"))
		default:
			zzverif.Block() // Enter did not leave the call
		}
		w1++
	}
	rl.Readline()
	zzverif.Reach("first-call-returned")
	second := &zzverif.Script{}
	core.Stdin = second
	w2 := 0
	second.OnWait = func() {
		switch w2 {
		case 0:
			if mode != keymap.Emacs {
				rl.Keymap.SetMain(mode)
			}
			second.Chunks = [][]byte{[]byte(zzKeysFor(rl, mode, yankCmd))}
		case 1:
			zzverif.Reach("yanked")
			zzverif.Note("killed", string(killed))
			zzverif.Note("afteryank", string(*rl.line))
			zzverif.Assert(zzSameRunes(killed, *rl.line), "yank-inserts-the-kill-of-the-previous-line/"+cmd)
			zzverif.Block()
		}
		w2++
	}
	rl.Readline()
}
