package readline

import (
	"github.com/reeflective/readline/internal/zzverif"
)

var zzShell *Shell

// ZZSetup_Shell builds the shell once; the resulting heap is the checkpoint.
func ZZSetup_Shell() {
	zzShell = NewShell()
}

func ZZ_Smoke_Cmd() {
	rl := zzShell
	n := zzverif.ParamInt("n")
	rs := zzverif.Runes("b", n)
	for _, r := range rs {
		zzverif.Assume(zzverif.ValidRune(r))
	}
	rl.line.Set(rs...)
	pos := zzverif.IntRange("pos", 0, n)
	rl.cursor.Set(pos)
	cmd := rl.Keymap.Commands()[zzverif.Param("cmd")]
	cmd()
	zzverif.Assert(rl.cursor.Pos() >= 0 && rl.cursor.Pos() <= rl.line.Len(), "cursor-in-range")
}
