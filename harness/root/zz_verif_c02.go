package readline

import (
	"github.com/reeflective/readline/internal/core"
	"github.com/reeflective/readline/internal/keymap"
	"github.com/reeflective/readline/internal/zzverif"
)

// ZZ_C02_Typed: the user types n printable runes (as UTF-8) and Enter; Readline must
// return exactly that text. params: mode (emacs|vi-insert), n, class (ascii|latin1|bmp|
// astral|any), meta (default|sym: meta variables symbolic; utf8: convert-meta off,
// input-meta/output-meta on), prev (optional: how an earlier call on the same shell ended)
func ZZ_C02_Typed() {
	mode := zzverif.Param("mode")
	n := zzverif.ParamInt("n")
	class := zzverif.Param("class")
	meta := zzverif.Param("meta")

	rs := zzverif.Runes("r", n)
	for _, r := range rs {
		zzverif.Assume(zzverif.ValidRune(r) && zzverif.IsPrint(r))
		switch class {
		case "ascii":
			zzverif.Assume(r < 0x80)
		case "special":
			// the ASCII characters with a meaning of their own in the editor (quotes,
			// brackets, backslash, comment and history characters), a letter and the blank
			zzverif.Assume(r == 'a' || r == ' ' || r == '"' || r == '\'' || r == '\\' || r == '(' || r == ')' || r == '[' || r == '{' || r == '~' || r == '^' || r == '`' || r == '#' || r == '!')
		case "latin1":
			zzverif.Assume(r >= 0x80 && r <= 0xff)
		case "bmp":
			zzverif.Assume(r > 0xff && r <= 0xffff)
		case "astral":
			zzverif.Assume(r > 0xffff)
		}
	}
	text := string(rs)
	script := &zzverif.Script{Chunks: [][]byte{[]byte(text + "\r")}}
	rl := zzSession(script)
	switch meta {
	case "sym":
		for _, v := range []string{"convert-meta", "input-meta", "output-meta", "meta-flag", "enable-meta-key", "byte-oriented"} {
			rl.Config.Set(v, zzverif.Bool(v))
		}
	case "utf8":
		rl.Config.Set("convert-meta", false)
		rl.Config.Set("input-meta", true)
		rl.Config.Set("output-meta", true)
	}
	rl.Config.Set("autopairs", false)
	rl.Config.Set("autocomplete", false)
	first := true
	script.OnWait = func() {
		if first && mode != keymap.Emacs {
			rl.Keymap.SetMain(mode)
		}
		first = false
	}
	if prev := zzverif.Param("prev"); prev != "" {
		// an earlier Readline call on the same shell: "x(" typed, then left by Enter, by
		// Ctrl-C, or (empty line) by Ctrl-D; or a completion menu left open by Ctrl-C + Enter
		ends := map[string]string{"enter": "x(\r", "abort": "x(\x03", "eof": "\x04", "tab": "x\t\t\r"}
		firstCall := &zzverif.Script{Chunks: [][]byte{[]byte(ends[prev])}}
		core.Stdin = firstCall
		rl.Completer = func(line []rune, cursor int) Completions { return CompleteValues("xa", "xb") }
		rl.Readline()
		rl.Completer = nil
		zzverif.Reach("first-call-returned")
		core.Stdin = script
	}
	line, err := rl.Readline()
	zzverif.Reach("returned")
	zzverif.Note("typed", text)
	zzverif.Note("got", line)
	sfx := "/" + class
	if class == "special" {
		sfx = "/ascii"
	}
	zzverif.Assert(err == nil, "no-error"+sfx)
	zzverif.Assert(line == text, "returns-what-was-typed"+sfx)
}
