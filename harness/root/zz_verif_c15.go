package readline

import (
	"strings"

	"github.com/reeflective/readline/internal/zzverif"
)

// zzCandidates builds the candidate set of a job: n distinct values whose lengths follow
// the pattern string (one digit per candidate, cycled), in the given structure.
func zzCandidates(n int, lens string, structure string) (Completions, []string) {
	var vals []string
	for i := 0; i < n; i++ {
		l := int(lens[i%len(lens)] - '0')
		name := string(rune('a'+i%26)) + string(rune('a'+(i/26)%26))
		for len(name) < l+1 {
			name += "x"
		}
		vals = append(vals, name)
	}
	switch structure {
	case "described":
		var pairs []string
		for i, v := range vals {
			pairs = append(pairs, v, "description "+string(rune('0'+i%10)))
		}
		return CompleteValuesDescribed(pairs...), vals
	case "aliased":
		// candidates share descriptions two by two
		var pairs []string
		for i, v := range vals {
			pairs = append(pairs, v, "shared "+string(rune('0'+(i/2)%10)))
		}
		return CompleteValuesDescribed(pairs...), vals
	case "ragged", "ragged-rev":
		// shared descriptions with groups of unequal size: 1, 2, 3, ... candidates per
		// description (ragged-rev: the largest group first), so that the rows of the aliased
		// grid have different lengths
		var group []int
		for g, left := 0, n; left > 0; g++ {
			size := g + 1
			if size > left {
				size = left
			}
			for k := 0; k < size; k++ {
				group = append(group, g)
			}
			left -= size
		}
		var pairs []string
		for i, v := range vals {
			g := group[i]
			if structure == "ragged-rev" {
				g = group[len(group)-1] - g
			}
			pairs = append(pairs, v, "shared "+string(rune('0'+g%10)))
		}
		return CompleteValuesDescribed(pairs...), vals
	case "tags":
		half := (n + 1) / 2
		a := CompleteValues(vals[:half]...).Tag("first")
		b := CompleteValues(vals[half:]...).Tag("second")
		return a.Merge(b), vals
	}
	return CompleteValues(vals...), vals
}

// ZZ_C15_Cycle: the completer offers n distinct candidates; menu-complete (or
// menu-complete-backward, or a mix) is invoked n+1 times on a terminal of symbolic width
// and height. The words inserted by the first n invocations must be the candidate set,
// each exactly once, and the (n+1)-th must be the first again.
// params: n, lens, structure (plain|described|aliased|tags), dir (fwd|bwd)
func ZZ_C15_Cycle() {
	n := zzverif.ParamInt("n")
	lens := zzverif.Param("lens")
	structure := zzverif.Param("structure")
	dir := zzverif.Param("dir")

	cols := zzverif.IntRange("cols", 1, 100)
	rows := zzverif.IntRange("rows", 2, 40)
	zzverif.WinsizeHook = func() (int, int) { return cols, rows }

	comps, vals := zzCandidates(n, lens, structure)
	script := &zzverif.Script{}
	rl := zzSession(script)
	zzverif.WinsizeHook = func() (int, int) { return cols, rows }
	rl.Completer = func(line []rune, cursor int) Completions { return comps }

	key := "\x1c"
	var seen []string
	wait := 0
	script.OnWait = func() {
		if wait == 0 {
			rl.Config.Bind("emacs", "\x1c", "menu-complete", false)
			rl.Config.Bind("emacs", "\x1d", "menu-complete-backward", false)
			rl.Config.Bind("menu-select", "\x1c", "menu-complete", false)
			rl.Config.Bind("menu-select", "\x1d", "menu-complete-backward", false)
			if dir == "bwd" {
				key = "\x1d"
			}
			for i := 0; i <= n; i++ {
				script.Chunks = append(script.Chunks, []byte(key))
			}
		} else {
			seen = append(seen, strings.TrimSpace(string(*rl.line)))
			if len(seen) == n+1 {
				zzverif.Reach("cycled")
				zzverif.Note("seen", strings.Join(seen, ","))
				// every candidate exactly once in the first n
				for _, v := range vals {
					count := 0
					for _, s := range seen[:n] {
						if s == v {
							count++
						}
					}
					zzverif.Assert(count == 1, "each-candidate-once-per-cycle/"+structure+"/"+dir)
				}
				zzverif.Assert(seen[n] == seen[0], "cycle-returns-to-first/"+structure+"/"+dir)
				zzverif.Block()
			}
		}
		wait++
	}
	rl.Readline()
}
