package readline

import (
	"github.com/reeflective/readline/internal/zzverif"
)

func zzScreenMatches(vt, ref *zzverif.VT, w int) bool { return zzScreenMatchesBut(vt, ref, w, false) }

// zzScreenMatchesBut: with lastColLost, a character missing in the last column is tolerated
// (the listed deferred-wrap erase defect); everything else must still match.
func zzScreenMatchesBut(vt, ref *zzverif.VT, w int, lastColLost bool) bool {
	maxRow := vt.MaxRow
	if ref.MaxRow > maxRow {
		maxRow = ref.MaxRow
	}
	for row := 0; row <= maxRow+1; row++ {
		for c := 0; c < w; c++ {
			a, okA := vt.Cells[[2]int{row, c}]
			b, okB := ref.Cells[[2]int{row, c}]
			// a blank cell and a cell holding a space look the same
			if okA && a == ' ' {
				okA = false
			}
			if okB && b == ' ' {
				okB = false
			}
			if lastColLost && c == w-1 && okB && !okA {
				continue
			}
			if okA != okB || (okA && a != b) {
				return false
			}
		}
	}
	return true
}

// ZZ_C04_Screen: after every redisplay the VT100 model shows the prompt followed by
// exactly the buffer, wrapped at the (symbolic) width, with nothing else in the input area,
// and its cursor is on the cell of the buffer's cursor. Two frames: a first buffer, then a
// second one (shorter, longer or equal) to expose remnants of earlier content.
// params: n1, n2 (buffer lengths of the two frames), alpha (letters: a-z; nl: a-z and
// newline; wide: a-z and the double-width U+4E16)
func ZZ_C04_Screen() {
	n1 := zzverif.ParamInt("n1")
	n2 := zzverif.ParamInt("n2")
	alpha := zzverif.Param("alpha")
	w := zzverif.IntRange("cols", 3, 10)
	zzverif.WinsizeHook = func() (int, int) { return w, 24 }
	letters := func(prefix string, n int) []rune {
		rs := zzverif.Runes(prefix, n)
		for _, r := range rs {
			switch alpha {
			case "nl":
				zzverif.Assume((r >= 'a' && r <= 'z') || r == '\n')
			case "wide":
				zzverif.Assume((r >= 'a' && r <= 'z') || r == 0x4e16)
			default:
				zzverif.Assume(r >= 'a' && r <= 'z')
			}
		}
		return rs
	}
	width := func(r rune) int {
		if r == 0x4e16 {
			return 2
		}
		return 1
	}
	// what the terminal should show for a buffer: the prompt and the first line, then every
	// further line on a row of its own, aligned under the first (blank indent)
	// (blank indent; the last line's indent holds the default secondary prompt)
	layout := func(buf []rune, upto int) string {
		last := -1
		for i, r := range buf {
			if r == '\n' {
				last = i
			}
		}
		out := prompt0
		for i, r := range buf[:upto] {
			switch {
			case r == '\n' && i == last:
				out += "\r\n" + zzSecondary
			case r == '\n':
				out += "\r\n" + zzSpaces(len(prompt0))
			default:
				out += string(r)
			}
		}
		return out
	}
	zzverif.VTWidth = width
	b1 := letters("b", n1)
	b2 := letters("c", n2)
	p1 := zzverif.IntRange("p1", 0, n1)
	p2 := zzverif.IntRange("p2", 0, n2)
	script := &zzverif.Script{}
	rl := zzSession(script)
	zzverif.WinsizeHook = func() (int, int) { return w, 24 }
	vt := zzverif.CaptureVT(w)
	zzverif.TruthfulReports(vt)
	prompt := prompt0
	rl.Prompt.Primary(func() string { return prompt })

	// rows a buffer occupies on the terminal
	rows := func(buf []rune) int {
		probe := zzverif.NewVT(w)
		probe.Write(layout(buf, len(buf)), width)
		return probe.MaxRow + 1
	}
	// shape of a buffer: number of newlines (2+ lumped), whether some line runs over more
	// than one row, and whether a wide character meets the right margin with one cell left
	shape := func(buf []rune) string {
		nl, wide, early, near := 0, 0, false, false
		probe := zzverif.NewVT(w)
		probe.Write(prompt0, width)
		lineLen := 0
		for i, r := range buf {
			if r == '\n' {
				nl++
				// a line other than the last that ends within 5 cells of the right margin
				// (DisplayLine counts the 5 bytes of a colour sequence as cells)
				if len(prompt0)+lineLen+5 >= w {
					near = true
				}
				lineLen = 0
				probe.Write(layout(buf, i+1)[len(layout(buf, i)):], width)
				continue
			}
			if width(r) == 2 {
				wide++
				if !probe.Pending && probe.Col+2 > w {
					early = true
				}
			}
			lineLen += width(r)
			probe.Write(string(r), width)
		}
		out := "newlines=" + string(rune('0'+nl))
		if nl >= 2 {
			out = "newlines=2+"
		}
		if probe.MaxRow+1 > nl+1 {
			out += ",wraps"
		}
		if near {
			out += ",line-ends-near-margin"
		}
		if early {
			out += ",wide-char-wraps-early"
		} else if wide > 0 {
			out += ",wide-chars"
		}
		return out
	}
	check := func(buf, prev []rune, p int, frame string) {
		zzverif.FinishVT(vt)
		ref := zzverif.NewVT(w)
		ref.Write(layout(buf, len(buf)), width)
		sfx := "/" + frame
		// classes of known findings get labels of their own: a line that ends exactly at
		// the right margin of the terminal (the terminal is left in deferred-wrap state)
		exact := false
		{
			probe := zzverif.NewVT(w)
			probe.Write(prompt, width)
			for i, r := range buf {
				if r == '\n' {
					if probe.Pending {
						exact = true
					}
					probe.Write(layout(buf, i+1)[len(layout(buf, i)):], width)
					continue
				}
				probe.Write(string(r), width)
			}
			if probe.Pending {
				exact = true
			}
		}
		if exact {
			sfx += "/row-exactly-filled"
			// the listed defect of this class erases the character in the last column; on
			// one-line buffers anything else that differs is reported under a label of its own
			if alpha != "nl" && alpha != "wide" && !zzScreenMatchesBut(vt, ref, w, true) {
				sfx += "+other-cells-differ"
			}
		}
		// multi-line buffers and wide characters: one label per shape of this frame's and
		// the previous frame's buffer
		if alpha == "nl" || alpha == "wide" {
			sfx += "/" + shape(buf)
			if prev != nil {
				sfx += "/after/" + shape(prev)
				switch pr, r := rows(prev), rows(buf); {
				case pr > r:
					sfx += "/taller"
				case pr < r:
					sfx += "/shorter"
				}
			}
		}
		zzverif.Note("screen-"+frame, zzDump(vt, w)+" want "+zzDump(ref, w))
		zzverif.Assert(zzScreenMatches(vt, ref, w), "screen-shows-prompt-and-buffer"+sfx)
		cur := zzverif.NewVT(w)
		cur.Write(layout(buf, p), width)
		wantRow, wantCol := cur.Row, cur.Col
		if cur.Pending {
			wantRow, wantCol = cur.Row+1, 0
		}
		zzverif.Assert(vt.Row == wantRow && vt.Col == wantCol, "terminal-cursor-on-buffer-cursor-cell"+sfx)
	}
	wait := 0
	script.OnWait = func() {
		switch wait {
		case 0:
			rl.line.Set(zzCopy(b1)...)
			rl.cursor.Set(p1)
			script.Chunks = [][]byte{{0x00}, {0x00}} // set-mark: a command that changes nothing
		case 1:
			zzverif.Reach("frame1")
			check(b1, nil, p1, "first-frame")
			rl.line.Set(zzCopy(b2)...)
			rl.cursor.Set(p2)
		case 2:
			zzverif.Reach("frame2")
			check(b2, b1, p2, "second-frame")
			zzverif.Block()
		}
		wait++
	}
	rl.Readline()
}

const prompt0 = "> "

// the library's default secondary prompt (internal/ui: secondaryPromptDefault)
const zzSecondary = "\u2514 "

func zzSpaces(n int) string {
	s := ""
	for i := 0; i < n; i++ {
		s += " "
	}
	return s
}

func zzDump(v *zzverif.VT, w int) string {
	s := ""
	for row := 0; row <= v.MaxRow; row++ {
		for c := 0; c < w; c++ {
			if r, ok := v.Cells[[2]int{row, c}]; ok && r != 0 {
				s += string(r)
			} else {
				s += "."
			}
		}
		s += "|"
	}
	return s + "@" + string(rune('0'+v.Row)) + "," + string(rune('0'+v.Col))
}
