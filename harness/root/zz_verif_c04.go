package readline

import (
	"github.com/reeflective/readline/internal/zzverif"
)

func zzScreenMatches(vt, ref *zzverif.VT, w int) bool {
	maxRow := vt.MaxRow
	if ref.MaxRow > maxRow {
		maxRow = ref.MaxRow
	}
	for row := 0; row <= maxRow+1; row++ {
		for c := 0; c < w; c++ {
			a, okA := vt.Cells[[2]int{row, c}]
			b, okB := ref.Cells[[2]int{row, c}]
			// a blank cell and a cell holding a space look the same
			if okA && a == ' ' {
				okA = false
			}
			if okB && b == ' ' {
				okB = false
			}
			if okA != okB || (okA && a != b) {
				return false
			}
		}
	}
	return true
}

// ZZ_C04_Screen: after every redisplay the VT100 model shows the prompt followed by
// exactly the buffer, wrapped at the (symbolic) width, with nothing else in the input area,
// and its cursor is on the cell of the buffer's cursor. Two frames: a first buffer, then a
// second one (shorter, longer or equal) to expose remnants of earlier content.
// params: n1, n2 (buffer lengths of the two frames; letters)
func ZZ_C04_Screen() {
	n1 := zzverif.ParamInt("n1")
	n2 := zzverif.ParamInt("n2")
	w := zzverif.IntRange("cols", 3, 10)
	zzverif.WinsizeHook = func() (int, int) { return w, 24 }
	letters := func(prefix string, n int) []rune {
		rs := zzverif.Runes(prefix, n)
		for _, r := range rs {
			zzverif.Assume(r >= 'a' && r <= 'z')
		}
		return rs
	}
	b1 := letters("b", n1)
	b2 := letters("c", n2)
	p1 := zzverif.IntRange("p1", 0, n1)
	p2 := zzverif.IntRange("p2", 0, n2)
	script := &zzverif.Script{}
	rl := zzSession(script)
	zzverif.WinsizeHook = func() (int, int) { return w, 24 }
	vt := zzverif.CaptureVT(w)
	zzverif.TruthfulReports(vt)
	prompt := "> "
	rl.Prompt.Primary(func() string { return prompt })

	check := func(buf []rune, p int, frame string) {
		zzverif.FinishVT(vt)
		ref := zzverif.NewVT(w)
		ref.Write(prompt+string(buf), zzverif.ASCIIWidth)
		sfx := "/" + frame
		exact := (len(prompt)+len(buf))%w == 0
		if exact {
			sfx += "/row-exactly-filled"
		}
		zzverif.Note("screen-"+frame, zzDump(vt, w)+" want "+zzDump(ref, w))
		zzverif.Assert(zzScreenMatches(vt, ref, w), "screen-shows-prompt-and-buffer"+sfx)
		cur := zzverif.NewVT(w)
		cur.Write(prompt+string(buf[:p]), zzverif.ASCIIWidth)
		wantRow, wantCol := cur.Row, cur.Col
		if cur.Pending {
			wantRow, wantCol = cur.Row+1, 0
		}
		zzverif.Assert(vt.Row == wantRow && vt.Col == wantCol, "terminal-cursor-on-buffer-cursor-cell"+sfx)
	}
	wait := 0
	script.OnWait = func() {
		switch wait {
		case 0:
			rl.line.Set(zzCopy(b1)...)
			rl.cursor.Set(p1)
			script.Chunks = [][]byte{{0x00}, {0x00}} // set-mark: a command that changes nothing
		case 1:
			zzverif.Reach("frame1")
			check(b1, p1, "first-frame")
			rl.line.Set(zzCopy(b2)...)
			rl.cursor.Set(p2)
		case 2:
			zzverif.Reach("frame2")
			check(b2, p2, "second-frame")
			zzverif.Block()
		}
		wait++
	}
	rl.Readline()
}

func zzDump(v *zzverif.VT, w int) string {
	s := ""
	for row := 0; row <= v.MaxRow; row++ {
		for c := 0; c < w; c++ {
			if r, ok := v.Cells[[2]int{row, c}]; ok && r != 0 {
				s += string(r)
			} else {
				s += "."
			}
		}
		s += "|"
	}
	return s + "@" + string(rune('0'+v.Row)) + "," + string(rune('0'+v.Col))
}
