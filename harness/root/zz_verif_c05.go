package readline

import (
	"github.com/reeflective/readline/internal/keymap"
	"github.com/reeflective/readline/internal/zzverif"
)

// zzWaitProbe, when set, sees every input wait after the first of zzRunChunks sessions
// (wait = number of chunks consumed so far); returning true skips the end-of-script check.
var zzWaitProbe func(rl *Shell, wait int) bool

// zzQueryLog: for every cursor-position query of the last session, how many type-ahead bytes shared its answer
var zzQueryLog string

// zzSaveInitial: record the installed buffer in the undo history (sessions that undo).
var zzSaveInitial bool

type zzOutcome struct {
	returned bool
	line     string
	errText  string
	buf      string
	cursor   int
	main     string
	local    string
}

// zzRunChunks runs Readline on rl from an initial buffer with the given read chunks and
// reports the outcome: the returned (line, err), or the editor state at the input wait
// that follows the last chunk. coDeliver[i]: the i-th cursor-position query is answered in
// the same read as the next pending chunk (before[i]: the chunk comes first).
func zzRunChunks(rl *Shell, mode string, initial []rune, chunks [][]byte, coDeliver, before []bool) zzOutcome {
	script := &zzverif.Script{}
	zzSessionOn(rl, script)
	query := 0
	zzQueryLog = ""
	zzverif.StdinHook = func(buf []byte) (int, error) {
		report := []byte("\x1b[1;1R")
		out := report
		defer func() { zzQueryLog += "q" + string(rune('0'+query%10)) + ":" + string(rune('0'+len(out)-len(report))) + " " }()
		if query < len(coDeliver) && coDeliver[query] {
			if extra := script.Steal(); extra != nil {
				if before[query] {
					out = append(append([]byte{}, extra...), report...)
				} else {
					out = append(append([]byte{}, report...), extra...)
				}
			}
		}
		query++
		return copy(buf, out), nil
	}
	var o zzOutcome
	wait := 0
	script.OnWait = func() {
		if wait == 0 {
			rl.line.Set(zzCopy(initial)...)
			rl.cursor.Set(len(initial))
			if mode != keymap.Emacs {
				rl.Keymap.SetMain(mode)
			}
			if mode == keymap.ViCommand {
				rl.cursor.Set(0)
			}
			if zzSaveInitial {
				rl.History.Save()
			}
			script.Chunks = chunks
		} else if zzWaitProbe != nil && zzWaitProbe(rl, wait) {
			// the probe asked to go on
		} else if script.Remaining() == 0 {
			o.buf = string(*rl.line)
			o.cursor = rl.cursor.Pos()
			o.main = string(rl.Keymap.Main())
			o.local = string(rl.Keymap.Local())
			panic(zzStop{})
		}
		wait++
	}
	func() {
		defer func() {
			if r := recover(); r != nil {
				if _, ok := r.(zzStop); !ok {
					panic(r)
				}
			}
		}()
		line, err := rl.Readline()
		o.returned = true
		o.line = line
		if err != nil {
			o.errText = err.Error()
		}
	}()
	return o
}

// ZZ_C05_Chunks: the same bytes (concrete prefix + k symbolic bytes) delivered in one
// read, and delivered under a symbolic chunking with symbolic co-delivery of type-ahead
// with cursor-position reports, must give the same outcome.
// params: mode, pre, k, n (initial buffer of n symbolic ASCII letters), post, alpha
func ZZ_C05_Chunks() {
	if !zzverif.Symbolic() || zzShell2 == nil {
		ZZSetup_TwoShells()
	}
	mode := zzverif.Param("mode")
	pre := zzverif.Param("pre")
	k := zzverif.ParamInt("k")
	n := zzverif.ParamInt("n")

	initial := zzverif.Runes("b", n)
	for _, r := range initial {
		zzverif.Assume(r >= 'a' && r <= 'z')
	}
	all := append([]byte(pre), zzverif.Bytes("k", k)...)
	if zzverif.Param("alpha") == "print" {
		for _, b := range all[len(pre):] {
			zzverif.Assume(b >= 0x20 && b < 0x7f)
		}
	}
	// post: concrete keys after the symbolic ones (e.g. the keys that end the recording of a
	// keyboard macro and call it), chunked like the rest
	post := zzverif.Param("post")
	nsym := len(all)
	all = append(all, []byte(post)...)
	// symbolic chunking
	var chunks [][]byte
	cur := []byte{}
	for i, b := range all {
		cur = append(cur, b)
		if i+1 < len(all) {
			cut := zzverif.Bool("cut" + string(rune('0'+i)))
			if mode != keymap.Emacs {
				// a lone ESC is told from an ESC-prefixed sequence by timing only
				zzverif.Assume(!(b == 0x1b && cut))
			}
			if cut {
				chunks = append(chunks, cur)
				cur = []byte{}
			}
		}
	}
	chunks = append(chunks, cur)
	co := []bool{false, false, false}
	bf := []bool{false, false, false}
	if zzverif.Param("co") == "1" {
		// which of the first cursor-position queries shares its read with type-ahead
		co = []bool{zzverif.Bool("co0"), zzverif.Bool("co1"), false}
		bf = []bool{zzverif.Bool("before0"), zzverif.Bool("before1"), false}
	}

	one := zzRunChunks(zzShell, mode, initial, [][]byte{all}, nil, nil)
	split := zzRunChunks(zzShell2, mode, initial, chunks, co, bf)
	zzverif.Note("queries-split", zzQueryLog)
	zzverif.Reach("both-ran")
	zzverif.Note("bytes", string(all))
	zzverif.Note("one", one.line+"|"+one.buf)
	zzverif.Note("split", split.line+"|"+split.buf)

	// classes of findings at the pinned commit get their own labels: the class of every
	// symbolic key (p printable, e ESC, q quoted-insert keys C-q/C-v, x C-x, c other
	// control, h byte >= 0x80), and whether type-ahead shared a read with a cursor report
	sfx := "/keys="
	for _, b := range all[len(pre):nsym] {
		switch {
		case b == 0x1b:
			sfx += "e"
		case b == 0x11 || b == 0x16:
			sfx += "q"
		case b == 0x18:
			sfx += "x"
		case b < 0x20 || b == 0x7f:
			sfx += "c"
		case b >= 0x80:
			sfx += "h"
		default:
			sfx += "p"
		}
	}
	anyCo := co[0] || co[1] || co[2]
	if anyCo {
		sfx += "/typeahead-with-cursor-report"
	}
	zzverif.Assert(one.returned == split.returned, "same-return-or-wait"+sfx)
	if one.returned != split.returned {
		return
	}
	if one.returned {
		zzverif.Assert(one.line == split.line && one.errText == split.errText, "same-returned-line"+sfx)
	} else {
		zzverif.Assert(one.buf == split.buf, "same-buffer"+sfx)
		zzverif.Assert(one.cursor == split.cursor && one.main == split.main && one.local == split.local, "same-cursor-and-mode"+sfx)
	}
}
