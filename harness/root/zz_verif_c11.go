package readline

import (
	"github.com/reeflective/readline/internal/zzverif"
)

// ZZ_C11_Restore: on every way out of Readline the terminal mode settings equal the
// (symbolic) settings in force before the call, the last cursor style written is the
// user's default (ESC[0 q), and the cursor stands at column 0 of the first row below the
// input. params: exit (accept|hold|abort|eof|comment|panic|makeraw), len (buffer length,
// letters), mode (emacs|vi-insert|vi-command), alpha (nl: letters and newlines)
func ZZ_C11_Restore() {
	exit := zzverif.Param("exit")
	n := zzverif.ParamInt("len")
	mode := zzverif.Param("mode")

	w := zzverif.IntRange("cols", 3, 12)
	zzverif.WinsizeHook = func() (int, int) { return w, 24 }
	buf := zzverif.Runes("b", n)
	multiline := zzverif.Param("alpha") == "nl"
	for _, r := range buf {
		if multiline {
			zzverif.Assume((r >= 'a' && r <= 'z') || r == '\n')
		} else {
			zzverif.Assume(r >= 'a' && r <= 'z')
		}
	}
	script := &zzverif.Script{}
	rl := zzSession(script)
	zzverif.WinsizeHook = func() (int, int) { return w, 24 }
	zzverif.SymbolicTermios()
	vt := zzverif.CaptureVT(w)
	zzverif.TruthfulReports(vt)
	prompt := "> "
	rl.Prompt.Primary(func() string { return prompt })

	keys := map[string]string{"accept": "\r", "hold": "\x1c", "abort": "\x03", "abortg": "\x07", "eof": "\x04", "comment": "\x1d", "panic": "\x1e"}
	wait := 0
	script.OnWait = func() {
		if wait == 0 {
			rl.Config.Bind("emacs", "\x1c", "accept-and-hold", false)
			rl.Config.Bind("emacs", "\x1d", "insert-comment", false)
			rl.Config.Bind("emacs", "\x1e", "zz-panic", false)
			rl.Keymap.Register(map[string]func(){"zz-panic": func() { panic("zz: user command panics") }})
			rl.line.Set(zzCopy(buf)...)
			rl.cursor.Set(zzverif.IntRange("pos", 0, n))
			if mode != "emacs" {
				for _, km := range []string{"vi-insert", "vi-command"} {
					rl.Config.Bind(km, "\x1c", "accept-and-hold", false)
					rl.Config.Bind(km, "\x1d", "insert-comment", false)
					rl.Config.Bind(km, "\x1e", "zz-panic", false)
					rl.Config.Bind(km, "\x03", "abort", false)
					rl.Config.Bind(km, "\x07", "abort", false)
					rl.Config.Bind(km, "\x04", "end-of-file", false)
					rl.Config.Bind(km, "\r", "accept-line", false)
				}
				rl.Keymap.SetMain(mode)
				if mode == "vi-command" {
					rl.cursor.CheckCommand()
				}
			}
			script.Chunks = [][]byte{[]byte(keys[exit])}
		} else {
			// did not leave Readline (e.g. Ctrl-D on a non-empty line): nothing to check
			zzverif.Reach("still-editing")
			zzverif.Block()
		}
		wait++
	}
	panicked := false
	var line string
	func() {
		defer func() {
			if r := recover(); r != nil {
				if s, ok := r.(string); ok && s == "zz: user command panics" {
					panicked = true
					return
				}
				panic(r)
			}
		}()
		line, _ = rl.Readline()
	}()
	zzverif.FinishVT(vt)
	zzverif.Reach("left-readline")
	sfx := "/" + exit
	zzverif.Assert(zzverif.TermiosRestored(), "terminal-mode-restored"+sfx)
	zzverif.Assert(vt.LastStyle == "\x1b[0 q", "cursor-style-reset"+sfx)
	// reference: where a terminal stands after prompt + returned text
	shown := line
	if panicked {
		shown = string(buf)
	}
	ref := zzverif.NewVT(w)
	if multiline {
		// lines after the first start on a row of their own, indented like the first
		exact, nl := false, 0
		ref.Write(prompt, zzverif.ASCIIWidth)
		for _, r := range shown {
			if r == '\n' {
				if ref.Pending {
					exact = true
				}
				nl++
				ref.Write("\r\n"+zzSpaces(len(prompt)), zzverif.ASCIIWidth)
				continue
			}
			ref.Write(string(r), zzverif.ASCIIWidth)
		}
		if ref.Pending {
			exact = true
		}
		if exact {
			sfx += "/row-exactly-filled"
		}
		// one label per shape of the buffer (see C04)
		if nl >= 2 {
			sfx += "/newlines=2+"
		} else {
			sfx += "/newlines=" + string(rune('0'+nl))
		}
		if ref.MaxRow+1 > nl+1 {
			sfx += ",wraps"
		}
	} else {
		ref.Write(prompt+shown, zzverif.ASCIIWidth)
		if (len(prompt)+len([]rune(shown)))%w == 0 {
			sfx += "/row-exactly-filled"
		}
	}
	zzverif.Note("out-row-col", string(rune('0'+vt.Row))+","+string(rune('0'+vt.Col))+" want row "+string(rune('0'+ref.Row+1)))
	zzverif.Assert(vt.Col == 0, "cursor-at-column-0"+sfx)
	// a fresh row below the input: strictly below the last input row, nothing printed on it
	empty := true
	for c := 0; c < w; c++ {
		if _, used := vt.Cells[[2]int{vt.Row, c}]; used {
			empty = false
		}
	}
	// (how many blank rows lie between the input and that row is not part of the statement)
	zzverif.Assert(vt.Row > ref.Row && empty, "cursor-on-fresh-row-below-input"+sfx)
}
