package readline

import (
	"github.com/reeflective/readline/internal/zzverif"
)

// ZZ_C11_Restore: on every way out of Readline the terminal mode settings equal the
// (symbolic) settings in force before the call, the last cursor style written is the
// user's default (ESC[0 q), and the cursor stands at column 0 of the first row below the
// input. params: exit (accept|hold|abort|eof|comment|panic|makeraw), len (buffer length,
// letters), mode (emacs|vi-insert|vi-command)
func ZZ_C11_Restore() {
	exit := zzverif.Param("exit")
	n := zzverif.ParamInt("len")
	mode := zzverif.Param("mode")

	w := zzverif.IntRange("cols", 3, 12)
	zzverif.WinsizeHook = func() (int, int) { return w, 24 }
	buf := zzverif.Runes("b", n)
	for _, r := range buf {
		zzverif.Assume(r >= 'a' && r <= 'z')
	}
	script := &zzverif.Script{}
	rl := zzSession(script)
	zzverif.WinsizeHook = func() (int, int) { return w, 24 }
	zzverif.SymbolicTermios()
	vt := zzverif.CaptureVT(w)
	zzverif.TruthfulReports(vt)
	prompt := "> "
	rl.Prompt.Primary(func() string { return prompt })

	keys := map[string]string{"accept": "\r", "hold": "\x1c", "abort": "\x03", "eof": "\x04", "comment": "\x1d", "panic": "\x1e"}
	wait := 0
	script.OnWait = func() {
		if wait == 0 {
			rl.Config.Bind("emacs", "\x1c", "accept-and-hold", false)
			rl.Config.Bind("emacs", "\x1d", "insert-comment", false)
			rl.Config.Bind("emacs", "\x1e", "zz-panic", false)
			rl.Keymap.Register(map[string]func(){"zz-panic": func() { panic("zz: user command panics") }})
			rl.line.Set(zzCopy(buf)...)
			rl.cursor.Set(zzverif.IntRange("pos", 0, n))
			if mode != "emacs" {
				for _, km := range []string{"vi-insert", "vi-command"} {
					rl.Config.Bind(km, "\x1c", "accept-and-hold", false)
					rl.Config.Bind(km, "\x1d", "insert-comment", false)
					rl.Config.Bind(km, "\x1e", "zz-panic", false)
					rl.Config.Bind(km, "\x03", "abort", false)
					rl.Config.Bind(km, "\x04", "end-of-file", false)
					rl.Config.Bind(km, "\r", "accept-line", false)
				}
				rl.Keymap.SetMain(mode)
				if mode == "vi-command" {
					rl.cursor.CheckCommand()
				}
			}
			script.Chunks = [][]byte{[]byte(keys[exit])}
		} else {
			// did not leave Readline (e.g. Ctrl-D on a non-empty line): nothing to check
			zzverif.Reach("still-editing")
			zzverif.Block()
		}
		wait++
	}
	panicked := false
	var line string
	func() {
		defer func() {
			if r := recover(); r != nil {
				if s, ok := r.(string); ok && s == "zz: user command panics" {
					panicked = true
					return
				}
				panic(r)
			}
		}()
		line, _ = rl.Readline()
	}()
	zzverif.FinishVT(vt)
	zzverif.Reach("left-readline")
	sfx := "/" + exit
	zzverif.Assert(zzverif.TermiosRestored(), "terminal-mode-restored"+sfx)
	zzverif.Assert(vt.LastStyle == "\x1b[0 q", "cursor-style-reset"+sfx)
	// reference: where a terminal stands after prompt + returned text
	shown := line
	if panicked {
		shown = string(buf)
	}
	ref := zzverif.NewVT(w)
	ref.Write(prompt+shown, zzverif.ASCIIWidth)
	if (len(prompt)+len([]rune(shown)))%w == 0 {
		sfx += "/row-exactly-filled"
	}
	zzverif.Note("out-row-col", string(rune('0'+vt.Row))+","+string(rune('0'+vt.Col))+" want row "+string(rune('0'+ref.Row+1)))
	zzverif.Assert(vt.Col == 0, "cursor-at-column-0"+sfx)
	// a fresh row below the input: strictly below the last input row (an input that exactly
	// fills its row is followed by an empty wrap row), nothing printed on it
	empty := true
	for c := 0; c < w; c++ {
		if _, used := vt.Cells[[2]int{vt.Row, c}]; used {
			empty = false
		}
	}
	zzverif.Assert(vt.Row > ref.Row && vt.Row <= ref.Row+2 && empty, "cursor-on-fresh-row-below-input"+sfx)
}
