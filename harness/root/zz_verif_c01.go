package readline

import (
	"github.com/reeflective/readline/internal/keymap"
	"github.com/reeflective/readline/internal/zzverif"
)

// ZZ_C01_Keys: Readline on an arbitrary small buffer receives a concrete prefix (which
// opens a multi-key / argument-reading / operator-pending context) followed by k fully
// symbolic bytes, delivered in one read or one byte per read; then the terminal blocks,
// reports end of input, or fails. Readline must return or block: any panic, deadlock,
// busy loop or non-terminating command is a violation (engine outcomes, no assertions).
// params: mode, pre, k, n, end (block|eof|err), split (0|1)
func ZZ_C01_Keys() {
	mode := zzverif.Param("mode")
	pre := zzverif.Param("pre")
	k := zzverif.ParamInt("k")
	n := zzverif.ParamInt("n")
	end := zzverif.Param("end")
	split := zzverif.Param("split") == "1"

	buf := zzverif.Runes("b", n)
	for _, r := range buf {
		zzverif.Assume(zzverif.TextRune(r) && r != 0)
	}
	script := &zzverif.Script{}
	switch end {
	case "eof":
		script.End = 1
	case "err":
		script.End = 2
	}
	rl := zzSession(script)
	wait := 0
	script.OnWait = func() {
		if wait == 0 {
			rl.line.Set(zzCopy(buf)...)
			rl.cursor.Set(zzverif.IntRange("pos", 0, n))
			if mode != keymap.Emacs {
				rl.Keymap.SetMain(mode)
			}
			if mode == keymap.ViCommand {
				rl.cursor.CheckCommand()
			}
			keys := zzverif.Bytes("k", k)
			if split {
				if pre != "" {
					script.Chunks = append(script.Chunks, []byte(pre))
				}
				for _, b := range keys {
					script.Chunks = append(script.Chunks, []byte{b})
				}
			} else {
				script.Chunks = [][]byte{append([]byte(pre), keys...)}
			}
		}
		wait++
	}
	rl.Readline()
	zzverif.Reach("returned")
}
