package readline

import (
	"sort"
	"strings"

	"github.com/reeflective/readline/inputrc"
	"github.com/reeflective/readline/internal/zzverif"
)

// ZZ_C19_Dump: the second half of the statement. A configuration holding a symbolic
// binding (kind=bind: sequence -> command; kind=macro: sequence -> macro body) or a
// symbolic variable value (kind=var) is printed by the real dump command in inputrc format
// (numeric argument + dump-functions / dump-macros / dump-variables, run inside Readline),
// the printed lines are parsed back by inputrc.ParseBytes into a fresh Config, and the
// result must hold the same binding / value.
// params: kind, n (sequence length), m (macro body / value length)
func ZZ_C19_Dump() {
	kind := zzverif.Param("kind")
	n := zzverif.ParamInt("n")
	m := zzverif.ParamInt("m")
	runes := func(prefix string, k int) []rune {
		rs := zzverif.Runes(prefix, k)
		for _, r := range rs {
			zzverif.Assume(zzverif.ValidRune(r))
			zzverif.Assume(r <= 0xff || zzverif.IsPrint(r))
		}
		return rs
	}
	seq := runes("s", n)
	var body []rune
	if kind != "bind" {
		body = runes("m", m)
	}
	var vbool bool
	var vint int
	if kind == "var" {
		// values of the three variable types; the string is printable ASCII without blanks,
		// quotes and '#' (an unquoted value cannot hold those)
		for _, r := range body {
			zzverif.Assume(r > 0x20 && r < 0x7f && r != '#' && r != '"' && r != '\'')
		}
		vbool = zzverif.Bool("vbool")
		vint = zzverif.IntRange("vint", -1, 120)
	}
	dumpCmd := map[string]string{"bind": "dump-functions", "macro": "dump-macros", "var": "dump-variables", "defaults": "dump-variables"}[kind]
	const dumpKey, argKeys = "\x07", "\x1b1"
	if n > 0 {
		// the symbolic binding must not capture the keys that run the dump: ESC 1 (which is
		// also how M-1 arrives) and C-g
		zzverif.Assume(seq[0] != 0x07 && seq[0] != 0xb1 && !(seq[0] == 0x1b && n > 1 && seq[1] == '1'))
	}

	script := &zzverif.Script{}
	rl := zzSession(script)
	out := zzverif.CaptureOutput()
	wait := 0
	var printed string
	script.OnWait = func() {
		switch wait {
		case 0:
			table := map[string]inputrc.Bind{
				dumpKey: {Action: dumpCmd},
				argKeys: {Action: "digit-argument"},
			}
			switch kind {
			case "bind":
				table[string(seq)] = inputrc.Bind{Action: "forward-char"}
			case "macro":
				table[string(seq)] = inputrc.Bind{Action: string(body), Macro: true}
			case "var":
				rl.Config.Vars["comment-begin"] = string(body)
				rl.Config.Vars["autopairs"] = vbool
				rl.Config.Vars["history-size"] = vint
			}
			rl.Config.Binds["emacs"] = table
			script.Chunks = [][]byte{[]byte(argKeys), []byte(dumpKey)}
		case 2:
			printed = out.Text()
			panic(zzStop{})
		}
		wait++
	}
	func() {
		defer func() {
			if r := recover(); r != nil {
				if _, stop := r.(zzStop); !stop {
					panic(r)
				}
			}
		}()
		rl.Readline()
	}()
	if printed == "" {
		printed = out.Text()
	}
	// the dump lines are those that start with a quote (bindings) or with "set "
	var lines []string
	for _, l := range strings.Split(printed, "\n") {
		l = strings.TrimSuffix(l, "\r")
		if strings.HasPrefix(l, "\"") || ((kind == "var" || kind == "defaults") && strings.HasPrefix(l, "set ")) {
			lines = append(lines, l)
		}
	}
	text := strings.Join(lines, "\n") + "\n"
	zzverif.Note("dump", text)
	zzverif.Assert(len(lines) > 0, "dump-printed-something")
	zzverif.Reach("dumped")

	cfg := inputrc.NewConfig()
	if kind == "defaults" {
		// every variable of the default configuration: dump, change, parse back, compare
		orig := map[string]interface{}{}
		for name, v := range rl.Config.Vars {
			orig[name] = v
		}
		for name, v := range orig {
			switch x := v.(type) {
			case bool:
				rl.Config.Vars[name] = !x
			case int:
				rl.Config.Vars[name] = x + 1
			case string:
				rl.Config.Vars[name] = x + "zz"
			}
		}
		_ = inputrc.ParseBytes([]byte(text), rl.Config)
		var names, failing []string
		for name := range orig {
			// "set keymap" selects the keymap of the bindings that follow (parser state by
			// design), it does not set a variable
			if name != "keymap" {
				names = append(names, name)
			}
		}
		sort.Strings(names)
		for _, name := range names {
			if rl.Config.Vars[name] != orig[name] {
				failing = append(failing, name)
			}
		}
		// one label naming the variables that do not come back, so that a listed finding is
		// about exactly these
		zzverif.Assert(len(failing) == 0, "default-variables-parse-back/failing="+strings.Join(failing, ","))
		return
	}
	if kind == "var" {
		// variables are read back into the running configuration (which knows their types),
		// after the three values have been changed
		cfg = rl.Config
		cfg.Vars["comment-begin"] = "zz"
		cfg.Vars["autopairs"] = !vbool
		cfg.Vars["history-size"] = vint + 1
	}
	err := inputrc.ParseBytes([]byte(text), cfg)
	_ = err

	// classes of the notation findings recorded for Escape/Unescape get their own labels
	sfx := ""
	for _, r := range append(append([]rune{}, seq...), body...) {
		if (r >= 0x80 && r <= 0x9f) || r == 0xad || r == 0xff {
			sfx = "-meta-nonprintable"
		}
	}
	if sfx == "" {
		// M-" is written \M-" : a bare quote inside the quoted key sequence
		for _, r := range append(append([]rune{}, seq...), body...) {
			if r == 0xa2 {
				sfx = "-meta-quote"
			}
		}
	}
	if sfx == "" {
		for _, r := range append(append([]rune{}, seq...), body...) {
			if r == 0x1c || r == 0xdc {
				sfx = "-control-backslash"
			}
		}
	}
	switch kind {
	case "bind":
		b, ok := cfg.Binds["emacs"][string(seq)]
		zzverif.Assert(ok && b.Action == "forward-char" && !b.Macro, "dumped-binding-parses-back"+sfx)
	case "macro":
		b, ok := cfg.Binds["emacs"][string(seq)]
		zzverif.Assert(ok && b.Macro && b.Action == string(body), "dumped-macro-parses-back"+sfx)
	case "var":
		v, ok := cfg.Vars["comment-begin"].(string)
		zzverif.Assert(ok && v == string(body), "dumped-string-variable-parses-back")
		b, ok := cfg.Vars["autopairs"].(bool)
		zzverif.Assert(ok && b == vbool, "dumped-boolean-variable-parses-back")
		i, ok := cfg.Vars["history-size"].(int)
		zzverif.Assert(ok && i == vint, "dumped-integer-variable-parses-back")
	}
}
