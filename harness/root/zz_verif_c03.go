package readline

import (
	"github.com/reeflective/readline/inputrc"
	"github.com/reeflective/readline/internal/zzverif"
)

// zzKey returns a symbolic key rune from a small alphabet that contains the interesting
// classes: two printable keys, ESC, a control key and a meta-encoded key (M-a = 0xE1,
// which the dispatcher matches as ESC a).
func zzKeyRune(name string, meta bool) rune {
	r := zzverif.Rune(name)
	if zzverif.Param("mac") == "1" {
		// macro tables: also the backslash (macro bodies are stored unescaped)
		if meta {
			zzverif.Assume(r == 'a' || r == 'b' || r == 0x1b || r == 0x18 || r == 0xe1 || r == '\\')
		} else {
			zzverif.Assume(r == 'a' || r == 'b' || r == 0x1b || r == 0x18 || r == '\\')
		}
		return r
	}
	if meta {
		zzverif.Assume(r == 'a' || r == 'b' || r == 0x1b || r == 0x18 || r == 0xe1)
	} else {
		zzverif.Assume(r == 'a' || r == 'b' || r == 0x1b || r == 0x18)
	}
	return r
}

// zzTyped is what a bind sequence looks like on the wire (meta conversion).
func zzTyped(seq []rune) []byte {
	var out []byte
	for _, r := range seq {
		if r >= 0x80 && r <= 0xff {
			out = append(out, 0x1b, byte(r&0x7f))
		} else {
			out = append(out, byte(r))
		}
	}
	return out
}

func zzHasPrefix(s, p []byte) bool {
	if len(p) > len(s) {
		return false
	}
	for i := range p {
		if s[i] != p[i] {
			return false
		}
	}
	return true
}

// ZZ_C03_Dispatch: the emacs keymap is replaced by a symbolic table of T bindings
// (sequences of the given lengths over the key alphabet, each bound to its own probe
// command); m symbolic keys are typed one per read. The first command the real
// dispatcher fires, and the key at which it fires, must be what the five rules of the
// property say (reference resolver of DESIGN appendix A.1).
// params: lens (e.g. "12" = two bindings of length 1 and 2), m, km (keymap whose table is
// replaced and which is made the main one; default emacs), local (the table replaces this
// local keymap instead, which is made active), mac ("1": the first binding is a
// macro whose body is the second binding's sequence)
func ZZ_C03_Dispatch() {
	lens := zzverif.Param("lens")
	m := zzverif.ParamInt("m")
	T := len(lens)
	km := zzverif.Param("km")
	if km == "" {
		km = "emacs"
	}
	mac := zzverif.Param("mac") == "1" && T >= 2

	table := make([][]rune, T)
	wire := make([][]byte, T)
	for i := 0; i < T; i++ {
		L := int(lens[i] - '0')
		for k := 0; k < L; k++ {
			table[i] = append(table[i], zzKeyRune("s"+string(rune('0'+i))+string(rune('0'+k)), true))
		}
		wire[i] = zzTyped(table[i])
	}
	// distinct sequences on the wire
	for i := 0; i < T; i++ {
		for j := 0; j < i; j++ {
			zzverif.Assume(string(wire[i]) != string(wire[j]))
		}
	}
	if mac {
		// the macro's keys form a binding that resolves at once (no longer binding extends
		// it); otherwise its command depends on the keys typed after the macro
		for t := 0; t < T; t++ {
			zzverif.Assume(!(len(wire[t]) > len(wire[1]) && zzHasPrefix(wire[t], wire[1])))
		}
	}
	keys := make([]byte, m)
	for i := range keys {
		keys[i] = byte(zzKeyRune("k"+string(rune('0'+i)), false))
	}

	// reference resolver: one attempt from a clean dispatcher
	wantCmd, wantAt := -1, -1
	endAt := m - 1 // index of the key at which the first attempt ends
	{
		shorter := -1
		var cur []byte
		for i, k := range keys {
			cur = append(cur, k)
			exact, prefix := -1, false
			for t := 0; t < T; t++ {
				if string(wire[t]) == string(cur) {
					exact = t
				} else if zzHasPrefix(wire[t], cur) {
					prefix = true
				}
			}
			if exact >= 0 && !prefix {
				wantCmd, wantAt = exact, i
				endAt = i
				break
			}
			if prefix {
				if exact >= 0 {
					shorter = exact
				}
				continue
			}
			if shorter >= 0 {
				wantCmd, wantAt = shorter, i
			}
			endAt = i
			break
		}
	}

	script := &zzverif.Script{}
	rl := zzSession(script)
	firedCmd, firedAt, firedLo := -1, -1, -1
	nfired := 0
	// a command is attributed to the read that was being consumed when it ran: keys
	// [lo, at] (one key per read in emacs: lo == at)
	var allCmd, allAt, allLo []int
	var mainKey []byte // firings of the main keymap's single-key probes (local-keymap jobs)
	var mainAt, mainLo []int
	delivered := 0 // keys handed over so far
	lo := 0        // index of the first key of the read being consumed
	chunk := 0
	wait := 0
	script.OnWait = func() {
		if wait == 0 {
			binds := map[string]inputrc.Bind{}
			cmds := map[string]func(){}
			for t := 0; t < T; t++ {
				t := t
				name := "zzprobe" + string(rune('0'+t))
				binds[string(table[t])] = inputrc.Bind{Action: name}
				if mac && t == 0 {
					// a macro: its keys are the second binding's sequence as typed
					binds[string(table[t])] = inputrc.Bind{Action: string(wire[1]), Macro: true}
				}
				cmds[name] = func() {
					nfired++
					allCmd = append(allCmd, t)
					allAt = append(allAt, delivered-1)
					allLo = append(allLo, lo)
					if firedCmd < 0 {
						firedCmd, firedAt, firedLo = t, delivered-1, lo
					}
				}
			}
			rl.Keymap.Register(cmds)
			if local := zzverif.Param("local"); local != "" {
				// the table is a local keymap's (consulted before the main one); the main keymap
				// keeps a single binding that is never typed
				rl.Config.Binds[local] = binds
				// the main keymap binds every plain key of the alphabet to a probe of its own:
				// keys the local keymap does not take fall through to it
				mainBinds := map[string]inputrc.Bind{"\x00": {Action: "zzprobe-none"}}
				mainCmds := map[string]func(){}
				for _, k := range []byte{'a', 'b', 0x18} {
					k := k
					name := "zzmain" + string(rune('0'+len(mainBinds)))
					mainBinds[string([]byte{k})] = inputrc.Bind{Action: name}
					mainCmds[name] = func() {
						mainKey = append(mainKey, k)
						mainAt = append(mainAt, delivered-1)
						mainLo = append(mainLo, lo)
					}
				}
				rl.Keymap.Register(mainCmds)
				rl.Config.Binds[km] = mainBinds
				rl.Keymap.SetLocal(local)
			} else {
				rl.Config.Binds[km] = binds
			}
			if km != "emacs" {
				rl.Keymap.SetMain(km)
			}
			var cur []byte
			for i, k := range keys {
				cur = append(cur, k)
				// in the vi keymaps and in local keymaps a lone ESC (leave insert mode, cancel the
				// local mode) is told from an ESC prefix by timing only: there ESC arrives in
				// the same read as the key that follows it
				if (km != "emacs" || zzverif.Param("local") != "") && k == 0x1b && i+1 < len(keys) {
					continue
				}
				script.Chunks = append(script.Chunks, cur)
				cur = nil
			}
		}
		if script.Remaining() > 0 {
			lo = delivered
			delivered += len(script.Chunks[chunk])
			chunk++
		}
		wait++

	}
	func() {
		defer func() {
			if r := recover(); r != nil {
				if _, ok := r.(zzStop); !ok {
					if _, blocked := r.(zzverif.Blocked); !blocked {
						panic(r)
					}
				}
			}
		}()
		if zzverif.Symbolic() {
			// under the engine Block() ends the path: observe before it
			script.End = 3
		}
		rl.Readline()
	}()
	zzverif.Reach("resolved")
	sfx := ""
	for _, s := range table {
		for _, r := range s {
			if r == 0x1b || r >= 0x80 {
				sfx = "/table-with-esc-or-meta"
			}
		}
	}
	// every command that ever fires must be justified by the keys typed: its sequence was
	// typed, ending at the key at which it fires, or one key earlier (a shorter binding firing
	// when the next key ruled the longer ones out)
	for i := range allCmd {
		ok := false
		for at := allLo[i]; at <= allAt[i] && !ok; at++ {
			ws := [][]byte{wire[allCmd[i]]}
			if mac && allCmd[i] == 1 {
				// the macro's own sequence justifies the command its keys are bound to
				ws = append(ws, wire[0])
			}
			for _, w := range ws {
				for s := 0; s <= at && !ok; s++ {
					// exact: the sequence ends at the key at which the command fires
					if at-s+1 == len(w) && string(keys[s:at+1]) == string(w) {
						ok = true
						break
					}
					// shortened: the sequence was typed from s, the keys after it kept a longer
					// binding alive up to the key before `at`, and the key at `at` ruled it out
					e := s + len(w) - 1
					if e < at && string(keys[s:e+1]) == string(w) {
						alive := false
						for t := 0; t < T; t++ {
							if len(wire[t]) > at-s && zzHasPrefix(wire[t], keys[s:at]) {
								alive = true
							}
						}
						dead := true
						for t := 0; t < T; t++ {
							if zzHasPrefix(wire[t], keys[s:at+1]) {
								dead = false
							}
						}
						if alive && dead {
							ok = true
						}
					}
				}
			}
		}
		zzverif.Assert(ok, "no-command-bound-to-a-different-sequence"+sfx)
	}
	if zzverif.Param("local") != "" {
		// a main-keymap probe only runs for its own key, in the read that delivered it
		for i := range mainKey {
			ok := false
			for at := mainLo[i]; at <= mainAt[i]; at++ {
				if keys[at] == mainKey[i] {
					ok = true
				}
			}
			zzverif.Assert(ok, "no-command-bound-to-a-different-sequence"+sfx)
		}
		// the key that rules out a pending local prefix is not lost: unless it starts a local
		// prefix itself, it runs what it is bound to, locally or in the main keymap
		if endAt >= 1 && (wantCmd < 0 || wantAt == endAt) && endAt < m {
			k := keys[endAt]
			shortened := wantCmd >= 0 && len(wire[wantCmd]) <= endAt
			failed := wantCmd < 0
			// was the first attempt really ended by this key (and not still pending)?
			pending := false
			for t := 0; t < T; t++ {
				if len(wire[t]) > endAt+1 && zzHasPrefix(wire[t], keys[:endAt+1]) {
					pending = true
				}
			}
			startsPrefix, own := false, -1
			for t := 0; t < T; t++ {
				if len(wire[t]) > 1 && wire[t][0] == k {
					startsPrefix = true
				}
				if len(wire[t]) == 1 && wire[t][0] == k {
					own = t
				}
			}
			if (shortened || failed) && !pending && !startsPrefix && k != 0x1b {
				zzverif.Reach("local-attempt-ended-by-a-key")
				ran := false
				for i := range allCmd {
					if allCmd[i] == own && allLo[i] <= endAt && endAt <= allAt[i] {
						ran = true
					}
				}
				for i := range mainKey {
					// (the library hands the key to the main keymap in the same iteration, without
					// trying the local keymap again: both are accepted)
					if mainKey[i] == k && mainLo[i] <= endAt && endAt <= mainAt[i] {
						ran = true
					}
				}
				zzverif.Assert(ran, "key-that-ends-a-local-attempt-is-dispatched"+sfx)
			}
		}
	}
	if mac && wantCmd == 0 {
		// "a sequence bound to a macro behaves as if the macro's keys had been typed": when
		// those keys are a complete binding that nothing extends, its command runs, at the key
		// that completed the macro's sequence
		extended := false
		for t := 0; t < T; t++ {
			if len(wire[t]) > len(wire[1]) && zzHasPrefix(wire[t], wire[1]) {
				extended = true
			}
		}
		if !extended {
			zzverif.Reach("macro-fires")
			zzverif.Assert(firedCmd == 1 && firedLo <= wantAt && wantAt <= firedAt, "macro-runs-as-if-its-keys-were-typed"+sfx)
		}
	} else if wantCmd >= 0 {
		zzverif.Reach("some-binding-fires")
		zzverif.Assert(firedCmd == wantCmd, "bound-sequence-runs-its-command"+sfx)
		zzverif.Assert(firedCmd != wantCmd || (firedLo <= wantAt && wantAt <= firedAt), "command-runs-when-its-last-key-arrives"+sfx)
	} else {
		// later keys start new attempts, which may legitimately fire
		zzverif.Assert(firedCmd < 0 || firedAt > endAt, "no-command-for-unbound-or-prefix-keys"+sfx)
	}
}
