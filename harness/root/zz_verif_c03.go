package readline

import (
	"github.com/reeflective/readline/inputrc"
	"github.com/reeflective/readline/internal/zzverif"
)

// zzKey returns a symbolic key rune from a small alphabet that contains the interesting
// classes: two printable keys, ESC, a control key and a meta-encoded key (M-a = 0xE1,
// which the dispatcher matches as ESC a).
func zzKeyRune(name string, meta bool) rune {
	r := zzverif.Rune(name)
	if meta {
		zzverif.Assume(r == 'a' || r == 'b' || r == 0x1b || r == 0x18 || r == 0xe1)
	} else {
		zzverif.Assume(r == 'a' || r == 'b' || r == 0x1b || r == 0x18)
	}
	return r
}

// zzTyped is what a bind sequence looks like on the wire (meta conversion).
func zzTyped(seq []rune) []byte {
	var out []byte
	for _, r := range seq {
		if r >= 0x80 && r <= 0xff {
			out = append(out, 0x1b, byte(r&0x7f))
		} else {
			out = append(out, byte(r))
		}
	}
	return out
}

func zzHasPrefix(s, p []byte) bool {
	if len(p) > len(s) {
		return false
	}
	for i := range p {
		if s[i] != p[i] {
			return false
		}
	}
	return true
}

// ZZ_C03_Dispatch: the emacs keymap is replaced by a symbolic table of T bindings
// (sequences of the given lengths over the key alphabet, each bound to its own probe
// command); m symbolic keys are typed one per read. The first command the real
// dispatcher fires, and the key at which it fires, must be what the five rules of the
// property say (reference resolver of DESIGN appendix A.1).
// params: lens (e.g. "12" = two bindings of length 1 and 2), m
func ZZ_C03_Dispatch() {
	lens := zzverif.Param("lens")
	m := zzverif.ParamInt("m")
	T := len(lens)

	table := make([][]rune, T)
	wire := make([][]byte, T)
	for i := 0; i < T; i++ {
		L := int(lens[i] - '0')
		for k := 0; k < L; k++ {
			table[i] = append(table[i], zzKeyRune("s"+string(rune('0'+i))+string(rune('0'+k)), true))
		}
		wire[i] = zzTyped(table[i])
	}
	// distinct sequences on the wire
	for i := 0; i < T; i++ {
		for j := 0; j < i; j++ {
			zzverif.Assume(string(wire[i]) != string(wire[j]))
		}
	}
	keys := make([]byte, m)
	for i := range keys {
		keys[i] = byte(zzKeyRune("k"+string(rune('0'+i)), false))
	}

	// reference resolver: one attempt from a clean dispatcher
	wantCmd, wantAt := -1, -1
	endAt := m - 1 // index of the key at which the first attempt ends
	{
		shorter := -1
		var cur []byte
		for i, k := range keys {
			cur = append(cur, k)
			exact, prefix := -1, false
			for t := 0; t < T; t++ {
				if string(wire[t]) == string(cur) {
					exact = t
				} else if zzHasPrefix(wire[t], cur) {
					prefix = true
				}
			}
			if exact >= 0 && !prefix {
				wantCmd, wantAt = exact, i
				endAt = i
				break
			}
			if prefix {
				if exact >= 0 {
					shorter = exact
				}
				continue
			}
			if shorter >= 0 {
				wantCmd, wantAt = shorter, i
			}
			endAt = i
			break
		}
	}

	script := &zzverif.Script{}
	rl := zzSession(script)
	firedCmd, firedAt := -1, -1
	nfired := 0
	var allCmd, allAt []int
	delivered := 0
	wait := 0
	script.OnWait = func() {
		if wait == 0 {
			binds := map[string]inputrc.Bind{}
			cmds := map[string]func(){}
			for t := 0; t < T; t++ {
				t := t
				name := "zzprobe" + string(rune('0'+t))
				binds[string(table[t])] = inputrc.Bind{Action: name}
				cmds[name] = func() {
					nfired++
					allCmd = append(allCmd, t)
					allAt = append(allAt, delivered-1)
					if firedCmd < 0 {
						firedCmd, firedAt = t, delivered-1
					}
				}
			}
			rl.Keymap.Register(cmds)
			rl.Config.Binds["emacs"] = binds
			for _, k := range keys {
				script.Chunks = append(script.Chunks, []byte{k})
			}
		}
		if script.Remaining() > 0 {
			delivered++
		}
		wait++

	}
	func() {
		defer func() {
			if r := recover(); r != nil {
				if _, ok := r.(zzStop); !ok {
					if _, blocked := r.(zzverif.Blocked); !blocked {
						panic(r)
					}
				}
			}
		}()
		if zzverif.Symbolic() {
			// under the engine Block() ends the path: observe before it
			script.End = 3
		}
		rl.Readline()
	}()
	zzverif.Reach("resolved")
	sfx := ""
	for _, s := range table {
		for _, r := range s {
			if r == 0x1b || r >= 0x80 {
				sfx = "/table-with-esc-or-meta"
			}
		}
	}
	// every command that ever fires must be justified by the keys typed: its sequence was
	// typed, ending at the key at which it fires, or one key earlier (a shorter binding firing
	// when the next key ruled the longer ones out)
	for i := range allCmd {
		w := wire[allCmd[i]]
		at := allAt[i]
		ok := false
		for s := 0; s <= at && !ok; s++ {
			// exact: the sequence ends at the key at which the command fires
			if at-s+1 == len(w) && string(keys[s:at+1]) == string(w) {
				ok = true
				break
			}
			// shortened: the sequence was typed from s, the keys after it kept a longer
			// binding alive up to the key before `at`, and the key at `at` ruled it out
			e := s + len(w) - 1
			if e < at && string(keys[s:e+1]) == string(w) {
				alive := false
				for t := 0; t < T; t++ {
					if len(wire[t]) > at-s && zzHasPrefix(wire[t], keys[s:at]) {
						alive = true
					}
				}
				dead := true
				for t := 0; t < T; t++ {
					if zzHasPrefix(wire[t], keys[s:at+1]) {
						dead = false
					}
				}
				if alive && dead {
					ok = true
				}
			}
		}
		zzverif.Assert(ok, "no-command-bound-to-a-different-sequence"+sfx)
	}
	if wantCmd >= 0 {
		zzverif.Reach("some-binding-fires")
		zzverif.Assert(firedCmd == wantCmd, "bound-sequence-runs-its-command"+sfx)
		zzverif.Assert(firedCmd != wantCmd || firedAt == wantAt, "command-runs-when-its-last-key-arrives"+sfx)
	} else {
		// later keys start new attempts, which may legitimately fire
		zzverif.Assert(firedCmd < 0 || firedAt > endAt, "no-command-for-unbound-or-prefix-keys"+sfx)
	}
}
