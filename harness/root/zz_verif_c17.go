package readline

import (
	"github.com/reeflective/readline/internal/keymap"
	"github.com/reeflective/readline/internal/zzverif"
)

// zzOperate runs "<op><count><motion>" in vi command mode from the given state on shell
// rl and reports the buffer and the register text afterwards.
func zzOperate(rl *Shell, buf []rune, pos int, keys []byte) (after []rune, reg []rune, done bool) {
	script := &zzverif.Script{}
	zzSessionOn(rl, script)
	wait := 0
	script.OnWait = func() {
		switch wait {
		case 0:
			rl.line.Set(zzCopy(buf)...)
			rl.cursor.Set(pos)
			rl.Keymap.SetMain(keymap.ViCommand)
			rl.cursor.CheckCommand()
			script.Chunks = [][]byte{keys}
		default:
			if script.Remaining() == 0 && !done {
				// the operator has run if no operator is pending any more
				if !rl.Keymap.IsPending() && rl.Keymap.Local() != keymap.ViOpp {
					done = true
				}
				after = append([]rune(nil), (*rl.line)...)
				reg = append([]rune(nil), rl.Buffers.GetKill()...)
				panic(zzStop{})
			}
		}
		wait++
	}
	func() {
		defer func() {
			if r := recover(); r != nil {
				if _, ok := r.(zzStop); !ok {
					panic(r)
				}
			}
		}()
		rl.Readline()
	}()
	return after, reg, done
}

type zzStop struct{}

// ZZ_C17_DeleteYank: from the same state, "d<motion>" on one shell and "y<motion>" on a
// second one. Asserted: yank leaves the buffer unchanged; delete removes exactly one
// contiguous range; the text delete put in the register equals the text yank copied and
// equals that range (up to the trailing newline both add for the linewise dd/yy).
// params: motion (keys; '?' = a symbolic argument byte), n, count, alpha
func ZZ_C17_DeleteYank() {
	if !zzverif.Symbolic() || zzShell2 == nil {
		ZZSetup_TwoShells()
	}
	motion := zzverif.Param("motion")
	n := zzverif.ParamInt("n")
	count := zzverif.Param("count")

	buf := zzverif.Runes("b", n)
	for _, r := range buf {
		if zzverif.Param("alpha") == "text" {
			zzverif.Assume(zzverif.TextRune(r) && r != 0)
		} else {
			zzverif.Assume(r > 0 && r < 0x80)
		}
	}
	pos := zzverif.IntRange("pos", 0, n)
	var mkeys []byte
	for i := 0; i < len(motion); i++ {
		if motion[i] == '?' {
			c := zzverif.Byte("arg")
			zzverif.Assume(c >= 0x20 && c < 0x7f)
			mkeys = append(mkeys, c)
		} else {
			mkeys = append(mkeys, motion[i])
		}
	}
	dkeys := append([]byte("d"+count), mkeys...)
	ykeys := append([]byte("y"+count), mkeys...)
	if motion == "d" {
		ykeys = []byte("y" + count + "y") // the doubled operator: dd vs yy
	}

	bd, td, doneD := zzOperate(zzShell, buf, pos, dkeys)
	by, ty, doneY := zzOperate(zzShell2, buf, pos, ykeys)
	zzverif.Reach("both-ran")
	zzverif.Note("buf", string(buf))
	zzverif.Note("after-d", string(bd))
	zzverif.Note("reg-d", string(td))
	zzverif.Note("after-y", string(by))
	zzverif.Note("reg-y", string(ty))

	sfx := ""
	if count != "" {
		sfx = "/with-count"
	}
	if sfx == "" {
		for _, r := range buf {
			if r == '\n' {
				sfx = "/buffer-with-newline"
			}
		}
	}
	if sfx == "" {
		for _, r := range buf {
			if r >= 0x80 {
				sfx = "/multibyte-text"
			}
		}
	}
	zzverif.Assert(doneD == doneY, "operators-complete-alike/"+motion+sfx)
	if !doneD || !doneY {
		return
	}
	zzverif.Assert(zzSameRunes(by, buf), "yank-leaves-buffer-unchanged/"+motion+sfx)
	removed := len(buf) - len(bd)
	zzverif.Assert(removed >= 0, "delete-only-removes/"+motion+sfx)
	if removed < 0 {
		return
	}
	// the removed range
	found := false
	var rng []rune
	for i := 0; i+removed <= len(buf); i++ {
		if zzSameRunes(buf[:i], bd[:i]) && zzSameRunes(buf[i+removed:], bd[i:]) {
			found = true
			rng = buf[i : i+removed]
			if zzSameRunes(rng, zzTrimNL(td, rng)) {
				break
			}
		}
	}
	zzverif.Assert(found, "delete-removes-one-contiguous-range/"+motion+sfx)
	if !found {
		return
	}
	if removed == 0 {
		// nothing deleted: yank must have copied nothing new either
		zzverif.Assert(zzSameRunes(td, ty), "delete-and-yank-registers-agree/"+motion+sfx)
		return
	}
	zzverif.Reach("deleted-something")
	zzverif.Assert(zzSameRunes(td, ty), "delete-removes-what-yank-copies/"+motion+sfx)
	zzverif.Assert(zzSameRunes(zzTrimNL(td, rng), rng), "register-holds-the-removed-text/"+motion+sfx)
}

// zzTrimNL drops the trailing newline linewise operators add to the register when the
// removed text itself does not end with one.
func zzTrimNL(reg, rng []rune) []rune {
	if len(reg) == len(rng)+1 && reg[len(reg)-1] == '\n' {
		return reg[:len(reg)-1]
	}
	return reg
}
