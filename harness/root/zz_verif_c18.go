package readline

import (
	"github.com/reeflective/readline/internal/core"
	"github.com/reeflective/readline/internal/keymap"
	"github.com/reeflective/readline/internal/zzverif"
)

// ZZ_C18_Session: the statement itself, on two shells. Shell A records the k symbolic keys
// K as a keyboard macro and calls it (emacs: C-x ( K C-x ) C-x e; vi: q a K q @ a); shell B
// has K typed twice. Every key arrives in a read of its own (interactive typing). The two
// sessions must end the same way: same returned line, or same buffer, cursor and keymaps at
// the input wait that follows the last key.
// params: style (emacs|vi), k, n (the first n characters of "ab c.d" are typed first),
// calls (2: Enter accepts the line after the recording / after K, and the macro call / the
// second K happen in a second Readline call on the same shell)
func ZZ_C18_Session() {
	if !zzverif.Symbolic() || zzShell2 == nil {
		ZZSetup_TwoShellsWrapped()
	}
	style := zzverif.Param("style")
	k := zzverif.ParamInt("k")
	n := zzverif.ParamInt("n")

	// concrete starting text (symbolic keys through the dispatcher are kept for K)
	initial := []rune("ab c.d")[:n]
	K := zzverif.Bytes("key", k)
	for i, b := range K {
		zzverif.Assume(b < 0x80)
		if zzverif.Param("alpha") == "ctl" {
			// control keys, ESC and DEL only (longer scripts)
			zzverif.Assume(b < 0x20 || b == 0x7f)
		}
		// keys that drive the macro machinery itself are not part of a key script
		if style == "vi" {
			zzverif.Assume(b != 'q' && b != '@')
			// a lone ESC is told from an ESC-prefixed sequence by timing only, which a macro
			// does not record: ESC is allowed as the last key only
			zzverif.Assume(b != 0x1b || i == k-1)
		} else {
			zzverif.Assume(b != 0x18)
		}
	}
	// the starting buffer is typed, so that the undo history and every other hidden state
	// are what a user's typing makes them
	var a, b [][]byte
	mode := keymap.Emacs
	want := keymap.Emacs
	if style == "vi" {
		mode = keymap.ViInsert
		want = keymap.ViCommand
	}
	for _, r := range initial {
		a = append(a, []byte{byte(r)})
		b = append(b, []byte{byte(r)})
	}
	if style == "vi" {
		a = append(a, []byte("\x1b"), []byte("q"), []byte("a"))
		b = append(b, []byte("\x1b"))
	} else {
		a = append(a, []byte("\x18("))
	}
	pre := len(b)
	for _, c := range K {
		a = append(a, []byte{c})
	}
	// calls=2: the line is accepted between the recording and the call of the macro, which
	// then runs in the next Readline call (a recorded macro outlives the line)
	twoCalls := zzverif.Param("calls") == "2"
	var a2, b2 [][]byte
	switch {
	case twoCalls && style == "vi":
		a = append(a, []byte("q"), []byte("\r"))
		a2 = [][]byte{[]byte("\x1b"), []byte("@"), []byte("a")}
		b2 = [][]byte{[]byte("\x1b")}
	case twoCalls:
		a = append(a, []byte("\x18)"), []byte("\r"))
		a2 = [][]byte{[]byte("\x18e")}
	case style == "vi":
		a = append(a, []byte("q"), []byte("@"), []byte("a"))
	default:
		a = append(a, []byte("\x18)"), []byte("\x18e"))
	}
	for i := 0; i < 2; i++ {
		for _, c := range K {
			if twoCalls && i == 1 {
				b2 = append(b2, []byte{c})
			} else {
				b = append(b, []byte{c})
			}
		}
		if twoCalls && i == 0 {
			b = append(b, []byte("\r"))
		}
	}
	replayed := zzRunChunks(zzShell, mode, nil, a, nil, nil)
	if twoCalls {
		zzverif.Assume(replayed.returned)
		replayed = zzRunChunks(zzShell, keymap.Emacs, nil, a2, nil, nil)
	}
	// K must be a script of complete commands: when it has been typed once, no command is
	// waiting for an argument key, no operator for its motion, no prefix for its next key
	zzInCmd = 0
	kDone := false
	zzWaitProbe = func(rl *Shell, wait int) bool {
		if i := wait - pre; i >= 0 && i+1 < k && K[i] == 0x1b {
			// a lone ESC cancels an active local keymap (search, menu, pending operator);
			// followed at once by another key it is a prefix: timing only tells them apart
			zzverif.Assume(rl.Keymap.Local() == "")
		}
		if wait == pre+k {
			kDone = true
			_, noKeys := core.PeekKey(rl.Keys)
			zzverif.Assume(zzInCmd == 0 && noKeys && !rl.Keymap.IsPending())
			// ... and the keys that end the recording and call the macro are still commands:
			// same main keymap, no local one (insert mode, searches and menus read them as text)
			zzverif.Assume(string(rl.Keymap.Main()) == want && rl.Keymap.Local() == "")
			searching, _, _ := rl.completer.NonIncrementallySearching()
			zzverif.Assume(!searching)
		}
		return false
	}
	typed := zzRunChunks(zzShell2, mode, nil, b, nil, nil)
	zzWaitProbe = nil
	if twoCalls {
		// K itself must not end the Readline call (Enter, Ctrl-C, ... are not key scripts that
		// can be typed twice in one line)
		zzverif.Assume(kDone && typed.returned)
		typed = zzRunChunks(zzShell2, keymap.Emacs, nil, b2, nil, nil)
	}
	zzverif.Reach("both-ran")
	zzverif.Note("keys", string(K))
	zzverif.Note("replayed", replayed.line+"|"+replayed.buf)
	zzverif.Note("typed", typed.line+"|"+typed.buf)

	// one label per first key, so that a listed finding names the keys it is about
	sfx := "/" + style
	// the undo position is shared, hidden state that the commands between the two runs of K
	// (end-kbd-macro, call-last-kbd-macro) also touch: scripts that undo have their own label
	for _, c := range K {
		if (style != "vi" && c == 0x1f) || (style == "vi" && (c == 'u' || c == 0x12)) {
			sfx = "/" + style + "/with-undo"
		}
	}
	// C-\ is stored as "\C-\" with a bare backslash (finding shared with C19 and the unit check)
	for _, c := range K {
		if c == 0x1c {
			sfx = "/" + style + "/after-control-backslash"
		}
	}
	// do-lowercase-version (ESC + capital letter) feeds the lower-case sequence back as keys
	for i, c := range K {
		if style != "vi" && c == 0x1b && i+1 < k && K[i+1] >= 'A' && K[i+1] <= 'Z' {
			sfx = "/" + style + "/do-lowercase-version"
		}
	}
	if k > 0 {
		if style != "vi" && K[0] >= 0x20 && K[0] < 0x7f {
			sfx += "/key0=printable"
		} else {
			sfx += "/key0=" + zzHex(K[0])
		}
	}
	zzverif.Assert(replayed.returned == typed.returned, "same-return-or-wait"+sfx)
	if replayed.returned != typed.returned {
		return
	}
	if replayed.returned {
		zzverif.Assert(replayed.line == typed.line && replayed.errText == typed.errText, "same-returned-line"+sfx)
	} else {
		zzverif.Assert(replayed.buf == typed.buf, "same-buffer"+sfx)
		zzverif.Assert(replayed.cursor == typed.cursor && replayed.main == typed.main && replayed.local == typed.local, "same-cursor-and-mode"+sfx)
	}
}

var zzInCmd int

// ZZSetup_TwoShellsWrapped: as ZZSetup_TwoShells; every command of the second shell is
// wrapped so that zzInCmd tells whether an input wait happens inside a command.
func ZZSetup_TwoShellsWrapped() {
	ZZSetup_TwoShells()
	wrapped := map[string]func(){}
	for name, fn := range zzShell2.Keymap.Commands() {
		fn := fn
		wrapped[name] = func() {
			zzInCmd++
			defer func() { zzInCmd-- }()
			fn()
		}
	}
	zzShell2.Keymap.Register(wrapped)
}

func zzHex(b byte) string {
	const d = "0123456789abcdef"
	return string([]byte{d[b>>4], d[b&15]})
}
