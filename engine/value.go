package main

// Value model: concrete heap shape, symbolic leaves.

import (
	"fmt"
	"go/types"
	"strings"

	"golang.org/x/tools/go/ssa"
)

type Value interface{}

// BV is an integer of width W; T == nil means the constant C (masked to W bits).
type BV struct {
	T *Term
	C uint64
	W uint8
}

// BoolV is a boolean; T == nil means the constant C.
type BoolV struct {
	T *Term
	C bool
}

type F64 float64

type Complex complex128

// Str is a string of concrete length; Sym is nil when fully concrete, else Sym[i] != nil
// gives the 8-bit term of byte i (S[i] is then meaningless).
type Str struct {
	S   string
	Sym []*Term
	Lit bool // result of regexp.QuoteMeta on symbolic text: S/Sym hold the *unquoted* text
}

// Obj is a heap object: a flat array of scalar slots.
type Obj struct {
	slots []Value
	epoch uint32 // allocation epoch; <= machine.ckEpoch means checkpoint object (writes are logged)
	id    uint32
	tag   string // debugging: allocation type
	nat   any    // native payload for opaque objects (e.g. *regexp.Regexp)
}

// Ptr points at slot off of object o. o == nil is the nil pointer.
type Ptr struct {
	o   *Obj
	off int
}

// Slice is a Go slice; es is the number of slots per element. o == nil is the nil slice.
type Slice struct {
	o        *Obj
	off      int // slot offset of element 0
	len, cap int
	es       int
}

// Tuple is a flattened struct/array value or a multi-value result.
type Tuple []Value

// Iface is a non-nil interface value. The nil interface is Iface{}.
type Iface struct {
	t types.Type
	v Value
}

type mapEntry struct {
	k, v    Value
	deleted bool
	symKey  bool // key has symbolic parts
	lazy    bool // inserted without resolving against older entries
}

// MapObj is a Go map with deterministic (insertion-ordered) iteration.
type MapObj struct {
	idx     map[string]int // canonical key -> index into entries
	entries []mapEntry
	n       int
	nlazy   int
	epoch   uint32
	kt, vt  types.Type
}

// Closure is a function value.
type Closure struct {
	fn    *ssa.Function
	env   []Value
	bltin *ssa.Builtin
}

type ChanObj struct {
	buf    []Value
	cap    int
	closed bool
	epoch  uint32
}

// RangeIter is the iterator of Range/Next.
type RangeIter struct {
	str   *Str
	pos   int
	m     *MapObj
	order []int
}

func mkInt(w uint8, v uint64) BV { return BV{nil, v & mask(uint16(w)), w} }
func mkBool(b bool) BoolV        { return BoolV{nil, b} }
func mkStr(s string) Str         { return Str{S: s} }
func (b BV) isConst() bool       { return b.T == nil }
func (b BoolV) isConst() bool    { return b.T == nil }
func (s Str) isConst() bool      { return s.Sym == nil }
func (b BV) sval() int64         { return sext(b.C, uint16(b.W)) }
func (s Str) Len() int           { return len(s.S) }
func (p Ptr) isNil() bool        { return p.o == nil }
func (s Slice) isNil() bool      { return s.o == nil }
func (i Iface) isNil() bool      { return i.t == nil }
func (m *Machine) bvTerm(b BV) *Term {
	if b.T != nil {
		return b.T
	}
	return m.tc.Const(uint16(b.W), b.C)
}
func (m *Machine) boolTerm(b BoolV) *Term {
	if b.T != nil {
		return b.T
	}
	return m.tc.BoolC(b.C)
}
func (m *Machine) fromTerm(t *Term) Value {
	if t.w == 0 {
		if t.isConst() {
			return BoolV{nil, t.k == 1}
		}
		return BoolV{T: t}
	}
	if t.isConst() {
		return BV{nil, t.k, uint8(t.w)}
	}
	return BV{T: t, W: uint8(t.w)}
}

// byteAt returns byte i of s as an 8-bit BV.
func (s Str) byteAt(i int) BV {
	if s.Sym != nil && s.Sym[i] != nil {
		return BV{T: s.Sym[i], W: 8}
	}
	return BV{C: uint64(s.S[i]), W: 8}
}

func (s Str) slice(lo, hi int) Str {
	if s.Sym == nil {
		return Str{S: s.S[lo:hi]}
	}
	r := Str{S: s.S[lo:hi], Sym: s.Sym[lo:hi]}
	return r.norm()
}

func (s Str) norm() Str {
	for _, t := range s.Sym {
		if t != nil {
			return s
		}
	}
	s.Sym = nil
	return s
}

func strFromBytes(bs []BV) Str {
	buf := make([]byte, len(bs))
	var sym []*Term
	for i, b := range bs {
		if b.T != nil {
			if sym == nil {
				sym = make([]*Term, len(bs))
			}
			sym[i] = b.T
		} else {
			buf[i] = byte(b.C)
		}
	}
	return Str{S: string(buf), Sym: sym}
}

func concatStr(a, b Str) Str {
	if a.Sym == nil && b.Sym == nil {
		return Str{S: a.S + b.S}
	}
	sym := make([]*Term, len(a.S)+len(b.S))
	if a.Sym != nil {
		copy(sym, a.Sym)
	}
	if b.Sym != nil {
		copy(sym[len(a.S):], b.Sym)
	}
	return Str{S: a.S + b.S, Sym: sym}
}

// ---------------------------------------------------------------------------
// Type layout (flat slots)

type layout struct {
	n      int
	fields []int // struct: slot offset per field
	es     int   // array: slots per element
}

func (m *Machine) layoutOf(t types.Type) *layout {
	if l, ok := m.layouts[t]; ok {
		return l
	}
	l := &layout{}
	switch u := t.Underlying().(type) {
	case *types.Struct:
		off := 0
		for i := 0; i < u.NumFields(); i++ {
			l.fields = append(l.fields, off)
			off += m.layoutOf(u.Field(i).Type()).n
		}
		l.n = off
	case *types.Array:
		l.es = m.layoutOf(u.Elem()).n
		l.n = l.es * int(u.Len())
	case *types.Tuple:
		off := 0
		for i := 0; i < u.Len(); i++ {
			l.fields = append(l.fields, off)
			off += m.layoutOf(u.At(i).Type()).n
		}
		l.n = off
	default:
		l.n = 1
	}
	m.layouts[t] = l
	return l
}

func (m *Machine) sizeOf(t types.Type) int { return m.layoutOf(t).n }

func intWidth(b *types.Basic) (w uint8, signed bool) {
	switch b.Kind() {
	case types.Int8:
		return 8, true
	case types.Int16:
		return 16, true
	case types.Int32:
		return 32, true
	case types.Int64, types.Int, types.UntypedInt, types.UntypedRune:
		if b.Kind() == types.UntypedRune {
			return 32, true
		}
		return 64, true
	case types.Uint8:
		return 8, false
	case types.Uint16:
		return 16, false
	case types.Uint32:
		return 32, false
	case types.Uint64, types.Uint, types.Uintptr:
		return 64, false
	}
	return 0, false
}

// zeroInto appends the zero slots of type t to dst.
func (m *Machine) zeroInto(dst []Value, t types.Type) []Value {
	switch u := t.Underlying().(type) {
	case *types.Basic:
		switch {
		case u.Info()&types.IsInteger != 0:
			w, _ := intWidth(u)
			return append(dst, boxInt(w, 0))
		case u.Info()&types.IsBoolean != 0:
			return append(dst, boxedFalse)
		case u.Info()&types.IsString != 0:
			return append(dst, boxedEmptyStr)
		case u.Info()&types.IsFloat != 0:
			return append(dst, F64(0))
		case u.Info()&types.IsComplex != 0:
			return append(dst, Complex(0))
		case u.Kind() == types.UnsafePointer:
			return append(dst, Ptr{})
		case u.Kind() == types.UntypedNil:
			return append(dst, Ptr{})
		}
		panic("zero: basic " + u.String())
	case *types.Pointer:
		return append(dst, boxedNilPtr)
	case *types.Slice:
		return append(dst, Slice{es: m.sizeOf(u.Elem())})
	case *types.Map:
		return append(dst, (*MapObj)(nil))
	case *types.Chan:
		return append(dst, (*ChanObj)(nil))
	case *types.Signature:
		return append(dst, (*Closure)(nil))
	case *types.Interface:
		return append(dst, boxedNilIface)
	case *types.Struct:
		for i := 0; i < u.NumFields(); i++ {
			dst = m.zeroInto(dst, u.Field(i).Type())
		}
		return dst
	case *types.Array:
		n := int(u.Len())
		if n == 0 {
			return dst
		}
		first := len(dst)
		dst = m.zeroInto(dst, u.Elem())
		es := len(dst) - first
		for i := 1; i < n; i++ {
			dst = append(dst, dst[first:first+es]...)
		}
		return dst
	case *types.Tuple:
		for i := 0; i < u.Len(); i++ {
			dst = m.zeroInto(dst, u.At(i).Type())
		}
		return dst
	}
	panic(fmt.Sprintf("zero: %T %v", t, t))
}

// zero returns the zero value of t as a register value (scalar or Tuple).
func (m *Machine) zero(t types.Type) Value {
	if isAggregate(t) {
		return Tuple(m.zeroInto(nil, t))
	}
	return m.zeroInto(nil, t)[0]
}

func isAggregate(t types.Type) bool {
	switch t.Underlying().(type) {
	case *types.Struct, *types.Array, *types.Tuple:
		return true
	}
	return false
}

// ---------------------------------------------------------------------------
// Heap

func (m *Machine) newObj(n int, tag string) *Obj {
	m.nextObj++
	m.stats.allocs++
	return &Obj{slots: make([]Value, n), epoch: m.epoch, id: m.nextObj, tag: tag}
}

func (m *Machine) allocType(t types.Type) Ptr {
	o := m.newObj(0, "")
	o.slots = m.zeroInto(make([]Value, 0, m.sizeOf(t)), t)
	return Ptr{o, 0}
}

type undoRec struct {
	o     *Obj
	slot  int
	old   Value
	mp    *MapObj
	mold  *mapSnapshot
	ch    *ChanObj
	chOld ChanObj
}

type mapSnapshot struct {
	idx     map[string]int
	entries []mapEntry
	n       int
	nlazy   int
}

func (m *Machine) storeSlot(o *Obj, i int, v Value) {
	if o.epoch <= m.ckEpoch && m.logging {
		m.undo = append(m.undo, undoRec{o: o, slot: i, old: o.slots[i]})
	}
	o.slots[i] = v
}

// load reads a value of type t at p.
func (m *Machine) load(p Ptr, t types.Type) Value {
	if p.o == nil {
		m.goPanicRuntime("invalid memory address or nil pointer dereference")
	}
	if isAggregate(t) {
		n := m.sizeOf(t)
		out := make(Tuple, n)
		copy(out, p.o.slots[p.off:p.off+n])
		return out
	}
	if p.off >= len(p.o.slots) {
		panic(fmt.Sprintf("load: slot %d out of object (%d slots, tag %s) type %v", p.off, len(p.o.slots), p.o.tag, t))
	}
	return p.o.slots[p.off]
}

func (m *Machine) store(p Ptr, t types.Type, v Value) {
	if p.o == nil {
		m.goPanicRuntime("invalid memory address or nil pointer dereference")
	}
	if tup, ok := v.(Tuple); ok && isAggregate(t) {
		for i, x := range tup {
			m.storeSlot(p.o, p.off+i, x)
		}
		return
	}
	if isAggregate(t) {
		if m.sizeOf(t) == 0 {
			return
		}
		panic(fmt.Sprintf("store: non-tuple %T into aggregate %v", v, t))
	}
	m.storeSlot(p.o, p.off, v)
}

// ---------------------------------------------------------------------------
// Maps

func (m *Machine) newMap(kt, vt types.Type) *MapObj {
	return &MapObj{idx: map[string]int{}, epoch: m.epoch, kt: kt, vt: vt}
}

func (m *Machine) logMap(mp *MapObj) {
	if mp.epoch <= m.ckEpoch && m.logging {
		// snapshot once per path (cheap check: last undo record for this map)
		if m.mapLogged == nil {
			m.mapLogged = map[*MapObj]bool{}
		}
		if m.mapLogged[mp] {
			return
		}
		m.mapLogged[mp] = true
		snap := &mapSnapshot{idx: make(map[string]int, len(mp.idx)), entries: append([]mapEntry(nil), mp.entries...), n: mp.n, nlazy: mp.nlazy}
		for k, v := range mp.idx {
			snap.idx[k] = v
		}
		m.undo = append(m.undo, undoRec{mp: mp, mold: snap})
	}
}

// keyString gives a canonical string for a concrete, comparable key; ok=false if the key
// contains symbolic parts.
func keyString(v Value, sb *strings.Builder) bool {
	switch x := v.(type) {
	case BV:
		if x.T != nil {
			return false
		}
		fmt.Fprintf(sb, "i%d:%d;", x.W, x.C)
	case BoolV:
		if x.T != nil {
			return false
		}
		fmt.Fprintf(sb, "b%v;", x.C)
	case Str:
		if x.Sym != nil {
			return false
		}
		fmt.Fprintf(sb, "s%d:%s;", len(x.S), x.S)
	case F64:
		fmt.Fprintf(sb, "f%v;", float64(x))
	case Ptr:
		if x.o == nil {
			sb.WriteString("p0;")
		} else {
			fmt.Fprintf(sb, "p%d+%d;", x.o.id, x.off)
		}
	case Iface:
		if x.t == nil {
			sb.WriteString("n;")
		} else {
			sb.WriteString("I")
			sb.WriteString(x.t.String())
			sb.WriteString(":")
			return keyString(x.v, sb)
		}
	case Tuple:
		sb.WriteString("(")
		for _, e := range x {
			if !keyString(e, sb) {
				return false
			}
		}
		sb.WriteString(")")
	case *ChanObj:
		fmt.Fprintf(sb, "c%p;", x)
	default:
		panic(fmt.Sprintf("keyString: unhashable %T", v))
	}
	return true
}

func (m *Machine) mapFind(mp *MapObj, k Value) int {
	if mp == nil {
		return -1
	}
	var sb strings.Builder
	conc := keyString(k, &sb)
	// entries with symbolic keys, newest first (a lazily inserted one shadows older equals)
	if mp.hasSymKeys() {
		for i := len(mp.entries) - 1; i >= 0; i-- {
			e := &mp.entries[i]
			if e.deleted || !e.symKey {
				continue
			}
			if m.branch(m.equalVals(e.k, k), "mapkey") {
				return i
			}
		}
	}
	if conc {
		if i, ok := mp.idx[sb.String()]; ok {
			return i
		}
		return -1
	}
	// symbolic key against the concrete-key entries
	nconc := 0
	for i := range mp.entries {
		if !mp.entries[i].deleted && !mp.entries[i].symKey {
			nconc++
		}
	}
	if nconc > 6 {
		return m.mapFindSym(mp, k)
	}
	for i := range mp.entries {
		e := &mp.entries[i]
		if e.deleted || e.symKey {
			continue
		}
		if m.branch(m.equalVals(e.k, k), "mapkey") {
			return i
		}
	}
	return -1
}

func (mp *MapObj) hasSymKeys() bool {
	_, ok := mp.idx["\x00sym"]
	return ok
}

// resolveLazy merges lazily inserted symbolic-key entries with older equal entries; needed
// before len, range and delete, which depend on the exact key set.
func (m *Machine) resolveLazy(mp *MapObj) {
	if mp == nil || mp.nlazy == 0 {
		return
	}
	m.logMap(mp)
	for i := range mp.entries {
		if !mp.entries[i].lazy || mp.entries[i].deleted {
			continue
		}
		k := mp.entries[i].k
		mp.entries[i].lazy = false
		mp.nlazy--
		// look among older entries only
		older := &MapObj{idx: mp.idx, entries: mp.entries[:i], n: i, kt: mp.kt, vt: mp.vt}
		j := m.mapFind(older, k)
		if j >= 0 {
			mp.entries[j].v = mp.entries[i].v
			mp.entries[i].deleted = true
			mp.entries[i].v = nil
			mp.n--
		}
	}
}

func (m *Machine) mapLookup(mp *MapObj, k Value) (Value, bool) {
	i := m.mapFind(mp, k)
	if i < 0 {
		return nil, false
	}
	return mp.entries[i].v, true
}

func (m *Machine) mapUpdate(mp *MapObj, k, v Value) {
	if mp == nil {
		m.goPanicRuntime("assignment to entry in nil map")
	}
	m.logMap(mp)
	var sb strings.Builder
	conc := keyString(k, &sb)
	if !conc && mp.n > 6 {
		// symbolic key into a sizeable map: insert lazily, without deciding now whether it
		// equals an existing key (lookups scan symbolic entries newest-first, so this entry
		// shadows any older equal one; len/range/delete resolve it first)
		mp.idx["\x00sym"] = -1
		mp.entries = append(mp.entries, mapEntry{k: k, v: v, symKey: true, lazy: true})
		mp.n++
		mp.nlazy++
		return
	}
	i := m.mapFind(mp, k)
	if i >= 0 {
		mp.entries[i].v = v
		return
	}
	if conc {
		mp.idx[sb.String()] = len(mp.entries)
		mp.entries = append(mp.entries, mapEntry{k: k, v: v})
	} else {
		mp.idx["\x00sym"] = -1
		mp.entries = append(mp.entries, mapEntry{k: k, v: v, symKey: true})
	}
	mp.n++
}

func (m *Machine) mapDelete(mp *MapObj, k Value) {
	if mp == nil {
		return
	}
	m.resolveLazy(mp)
	i := m.mapFind(mp, k)
	if i < 0 {
		return
	}
	m.logMap(mp)
	var sb strings.Builder
	if keyString(mp.entries[i].k, &sb) {
		delete(mp.idx, sb.String())
	}
	// copy-on-write of entries is guaranteed by logMap snapshot (which copied the slice)
	mp.entries[i].deleted = true
	mp.entries[i].v = nil
	mp.n--
}

func describe(v Value) string {
	switch x := v.(type) {
	case nil:
		return "<nil>"
	case BV:
		if x.T != nil {
			return fmt.Sprintf("bv%d{%v}", x.W, x.T)
		}
		return fmt.Sprintf("%d", x.sval())
	case BoolV:
		if x.T != nil {
			return fmt.Sprintf("bool{%v}", x.T)
		}
		return fmt.Sprint(x.C)
	case Str:
		if x.Sym == nil {
			return fmt.Sprintf("%q", x.S)
		}
		return fmt.Sprintf("symstr(len %d)", len(x.S))
	case Ptr:
		if x.o == nil {
			return "nil"
		}
		return fmt.Sprintf("&obj%d[%d]", x.o.id, x.off)
	case Slice:
		return fmt.Sprintf("slice(len %d cap %d)", x.len, x.cap)
	case Tuple:
		var parts []string
		for _, e := range x {
			parts = append(parts, describe(e))
		}
		return "(" + strings.Join(parts, ", ") + ")"
	case Iface:
		if x.t == nil {
			return "nil-iface"
		}
		return fmt.Sprintf("iface(%v: %s)", x.t, describe(x.v))
	case *Closure:
		if x == nil {
			return "nil-func"
		}
		if x.fn != nil {
			return "func " + x.fn.String()
		}
		return "builtin"
	case *MapObj:
		if x == nil {
			return "nil-map"
		}
		return fmt.Sprintf("map(%d)", x.n)
	}
	return fmt.Sprintf("%T", v)
}

var boxedEmptyStr Value = Str{}
var boxedNilPtr Value = Ptr{}
var boxedNilIface Value = Iface{}

// concreteUnder evaluates a (possibly symbolic) scalar/string/tuple value under the model.
func (m *Machine) concreteUnder(v Value) Value {
	memo := map[*Term]uint64{}
	var rec func(v Value) Value
	rec = func(v Value) Value {
		switch x := v.(type) {
		case BV:
			if x.T != nil {
				return mkInt(x.W, evalTerm(x.T, m.path.model, memo))
			}
		case BoolV:
			if x.T != nil {
				return BoolV{C: evalTerm(x.T, m.path.model, memo) == 1}
			}
		case Str:
			if x.Sym != nil {
				b := []byte(x.S)
				for i, t := range x.Sym {
					if t != nil {
						b[i] = byte(evalTerm(t, m.path.model, memo))
					}
				}
				return Str{S: string(b)}
			}
		case Tuple:
			out := make(Tuple, len(x))
			for i, e := range x {
				out[i] = rec(e)
			}
			return out
		case Iface:
			if x.t != nil {
				return Iface{t: x.t, v: rec(x.v)}
			}
		}
		return v
	}
	return rec(v)
}

// mapFindSym looks a symbolic key up in a map whose stored keys are all concrete.
func (m *Machine) mapFindSym(mp *MapObj, k Value) int {
	// any := OR_i (key_i == k)
	anyT := m.tc.ff
	for i := range mp.entries {
		e := &mp.entries[i]
		if e.deleted || e.symKey {
			continue
		}
		c := m.equalVals(e.k, k)
		if c.T == nil {
			if c.C {
				return i
			}
			continue
		}
		anyT = m.tc.Or(anyT, c.T)
	}
	for {
		if !m.branch(m.fromTerm(anyT).(BoolV), "mapkey-any") {
			return -1
		}
		// some entry matches under the current model: which one is a recorded choice
		cand := uint64(1 << 62)
		if m.path.pos >= len(m.path.trace) && m.ensureModel() {
			var sb strings.Builder
			if keyString(m.concreteUnder(k), &sb) {
				if i, ok := mp.idx[sb.String()]; ok {
					cand = uint64(i)
				}
			}
		}
		cand = m.recordChoice(cand)
		if cand == 1<<62 {
			// model gave no usable candidate: fall back to scanning
			for i := range mp.entries {
				e := &mp.entries[i]
				if !e.deleted && !e.symKey && m.branch(m.equalVals(e.k, k), "mapkey") {
					return i
				}
			}
			return -1
		}
		if m.branch(m.equalVals(mp.entries[cand].k, k), "mapkey-cand") {
			return int(cand)
		}
		// this path learnt k != entries[cand]; look again
	}
}
