package main

// Model of the fmt verbs the repository uses, over possibly symbolic operands.

import (
	"fmt"
	"go/types"
	"strings"

	"golang.org/x/tools/go/ssa"
)

func (m *Machine) methodOf(t types.Type, name string) *ssa.Function {
	ms := m.prog.prog.MethodSets.MethodSet(t)
	for i := 0; i < ms.Len(); i++ {
		sel := ms.At(i)
		if sel.Obj().Name() == name {
			return m.prog.prog.MethodValue(sel)
		}
	}
	return nil
}

func (m *Machine) callErrorMethod(iv Iface) (string, bool) {
	if f := m.methodOf(iv.t, "Error"); f != nil && f.Signature.Params().Len() == 0 {
		r := m.callSSA(m.cur, f, []Value{iv.v}, nil)
		if s, ok := r.(Str); ok {
			return m.strConcrete(s), true
		}
	}
	return "", false
}

// stringOf renders an operand for %s / %v.
func (m *Machine) stringOf(iv Iface, verb byte) (Str, bool) {
	if iv.t == nil {
		if verb == 's' {
			return Str{S: "%!s(<nil>)"}, true
		}
		return Str{S: "<nil>"}, true
	}
	if verb == 's' || verb == 'v' || verb == 'q' {
		for _, name := range []string{"Error", "String"} {
			if f := m.methodOf(iv.t, name); f != nil && f.Signature.Params().Len() == 0 && f.Signature.Results().Len() == 1 {
				if b, ok := f.Signature.Results().At(0).Type().Underlying().(*types.Basic); ok && b.Kind() == types.String {
					r := m.callSSA(m.cur, f, []Value{iv.v}, nil)
					return r.(Str), true
				}
			}
		}
	}
	if s, ok := iv.v.(Str); ok {
		return s, true
	}
	return Str{}, false
}

func (m *Machine) concretizeValue(v Value) Value {
	switch x := v.(type) {
	case BV:
		if x.T != nil {
			return mkInt(x.W, m.concretize(x, "fmt"))
		}
	case BoolV:
		if x.T != nil {
			return BoolV{C: m.branch(x, "fmt-bool")}
		}
	case Str:
		if x.Sym != nil {
			b := []byte(x.S)
			for i, t := range x.Sym {
				if t != nil {
					b[i] = byte(m.concretize(BV{T: t, W: 8}, "fmt-str"))
				}
			}
			return Str{S: string(b)}
		}
	case Slice:
		if !deepConcrete(x) {
			for i := 0; i < x.len*x.es; i++ {
				x.o.slots[x.off+i] = m.concretizeValue(x.o.slots[x.off+i])
			}
		}
	}
	return v
}

func (m *Machine) formatArg(spec string, verb byte, arg Value) Str {
	iv, _ := arg.(Iface)
	plain := spec == "%"+string(verb)
	switch verb {
	case 's', 'v':
		if s, ok := m.stringOf(iv, verb); ok && (plain || spec == "%+v") {
			return s
		} else if ok {
			s2 := m.concretizeValue(s).(Str)
			return Str{S: fmt.Sprintf(strings.Replace(spec, "v", "s", 1), s2.S)}
		}
	case 'w':
		if s, ok := m.stringOf(iv, 'v'); ok {
			return s
		}
	case 'T':
		if iv.t == nil {
			return Str{S: "<nil>"}
		}
		return Str{S: types.TypeString(iv.t, func(p *types.Package) string { return p.Name() })}
	case 'q':
		if s, ok := m.stringOf(iv, verb); ok {
			s2 := m.concretizeValue(s).(Str)
			return Str{S: fmt.Sprintf(spec, s2.S)}
		}
	}
	if iv.t == nil {
		return Str{S: fmt.Sprintf(spec, nil)}
	}
	if bv, ok := iv.v.(BV); ok && bv.T != nil && (verb == 'x' || verb == 'X') {
		if s, ok := m.symHex(bv, isSigned(iv.t), spec, verb == 'X'); ok {
			return s
		}
	}
	if bv, ok := iv.v.(BV); ok && bv.T != nil && (verb == 'd' || verb == 'v') && (spec == "%d" || spec == "%v") {
		if s, ok := m.symDec(bv, isSigned(iv.t)); ok {
			return s
		}
	}
	cv := m.concretizeValue(iv.v)
	nv, ok := m.ifaceToNative(Iface{t: iv.t, v: cv})
	if !ok {
		if p, isPtr := cv.(Ptr); isPtr && (verb == 'v' || verb == 'p') {
			if p.o == nil {
				return Str{S: "<nil>"}
			}
			return Str{S: fmt.Sprintf("0xc%07x", p.o.id*16+uint32(p.off))}
		}
		m.unsupported("fmt verb %s on operand of type %v", spec, iv.t)
	}
	return Str{S: fmt.Sprintf(spec, nv)}
}

func (m *Machine) sprintf(format Str, args []Value) (Str, []Iface) {
	if format.Sym != nil {
		format = m.concretizeValue(format).(Str)
	}
	f := format.S
	out := Str{}
	argi := 0
	var wrapped []Iface
	for i := 0; i < len(f); {
		j := strings.IndexByte(f[i:], '%')
		if j < 0 {
			out = concatStr(out, Str{S: f[i:]})
			break
		}
		out = concatStr(out, Str{S: f[i : i+j]})
		i += j
		// parse spec
		k := i + 1
		for k < len(f) && strings.IndexByte("+-# 0123456789.*", f[k]) >= 0 {
			k++
		}
		if k >= len(f) {
			out = concatStr(out, Str{S: "%!(NOVERB)"})
			break
		}
		verb := f[k]
		spec := f[i : k+1]
		i = k + 1
		if verb == '%' {
			out = concatStr(out, Str{S: "%"})
			continue
		}
		if strings.Contains(spec, "*") {
			m.unsupported("fmt: * width")
		}
		if argi >= len(args) {
			out = concatStr(out, Str{S: "%!" + string(verb) + "(MISSING)"})
			continue
		}
		arg := args[argi]
		argi++
		if verb == 'w' {
			if iv, ok := arg.(Iface); ok {
				wrapped = append(wrapped, iv)
			}
		}
		out = concatStr(out, m.formatArg(spec, verb, arg))
	}
	if argi < len(args) {
		out = concatStr(out, Str{S: "%!(EXTRA "})
		for ; argi < len(args); argi++ {
			iv := args[argi].(Iface)
			out = concatStr(out, Str{S: types.TypeString(iv.t, nil) + "="})
			out = concatStr(out, m.formatArg("%v", 'v', iv))
		}
		out = concatStr(out, Str{S: ")"})
	}
	return out.norm(), wrapped
}

func (m *Machine) sprint(args []Value, ln bool) Str {
	out := Str{}
	prevStr := false
	for i, a := range args {
		iv := a.(Iface)
		_, isStr := iv.v.(Str)
		if iv.t != nil {
			if b, ok := iv.t.Underlying().(*types.Basic); !ok || b.Kind() != types.String {
				isStr = false
			}
		}
		if i > 0 && (ln || (!isStr && !prevStr)) {
			out = concatStr(out, Str{S: " "})
		}
		out = concatStr(out, m.formatArg("%v", 'v', iv))
		prevStr = isStr
	}
	if ln {
		out = concatStr(out, Str{S: "\n"})
	}
	return out.norm()
}

func (m *Machine) variadic(v Value) []Value {
	sl := v.(Slice)
	out := make([]Value, sl.len)
	for i := range out {
		out[i] = sl.o.slots[sl.off+i]
	}
	return out
}

func registerFmtIntrinsics(reg func(string, intrinsicFn)) {
	nres := func(m *Machine, s Str) Value { return Tuple{mkInt(64, uint64(len(s.S))), Iface{}} }
	reg("fmt.Sprintf", func(m *Machine, _ *frame, _ *ssa.Function, a []Value) (Value, bool) {
		s, _ := m.sprintf(argStr(a[0]), m.variadic(a[1]))
		return s, true
	})
	reg("fmt.Sprint", func(m *Machine, _ *frame, _ *ssa.Function, a []Value) (Value, bool) {
		return m.sprint(m.variadic(a[0]), false), true
	})
	reg("fmt.Sprintln", func(m *Machine, _ *frame, _ *ssa.Function, a []Value) (Value, bool) {
		return m.sprint(m.variadic(a[0]), true), true
	})
	reg("fmt.Printf", func(m *Machine, c *frame, _ *ssa.Function, a []Value) (Value, bool) {
		s, _ := m.sprintf(argStr(a[0]), m.variadic(a[1]))
		m.env.write(c, 1, s)
		return nres(m, s), true
	})
	reg("fmt.Print", func(m *Machine, c *frame, _ *ssa.Function, a []Value) (Value, bool) {
		s := m.sprint(m.variadic(a[0]), false)
		m.env.write(c, 1, s)
		return nres(m, s), true
	})
	reg("fmt.Println", func(m *Machine, c *frame, _ *ssa.Function, a []Value) (Value, bool) {
		s := m.sprint(m.variadic(a[0]), true)
		m.env.write(c, 1, s)
		return nres(m, s), true
	})
	fprint := func(kind int) intrinsicFn {
		return func(m *Machine, c *frame, _ *ssa.Function, a []Value) (Value, bool) {
			w := a[0].(Iface)
			var s Str
			switch kind {
			case 0:
				s, _ = m.sprintf(argStr(a[1]), m.variadic(a[2]))
			case 1:
				s = m.sprint(m.variadic(a[1]), false)
			default:
				s = m.sprint(m.variadic(a[1]), true)
			}
			// call the writer's Write method
			if p, ok := w.v.(Ptr); ok && p.o != nil {
				if fd, isFile := p.o.nat.(int); isFile {
					m.env.write(c, fd, s)
					return nres(m, s), true
				}
			}
			wf := m.methodOf(w.t, "Write")
			if wf == nil {
				m.unsupported("fmt.Fprint: writer %v has no Write", w.t)
			}
			sl := m.makeSlice(types.Typ[types.Uint8], len(s.S), len(s.S))
			for i := range s.S {
				sl.o.slots[i] = s.byteAt(i)
			}
			return m.callSSA(c, wf, []Value{w.v, sl}, nil), true
		}
	}
	reg("fmt.Fprintf", fprint(0))
	reg("fmt.Fprint", fprint(1))
	reg("fmt.Fprintln", fprint(2))
	reg("fmt.Errorf", func(m *Machine, _ *frame, _ *ssa.Function, a []Value) (Value, bool) {
		s, wrapped := m.sprintf(argStr(a[0]), m.variadic(a[1]))
		if len(wrapped) == 1 {
			wt := m.namedType("fmt", "wrapError")
			p := m.allocType(wt)
			p.o.slots[0] = s
			p.o.slots[1] = wrapped[0]
			return Iface{t: types.NewPointer(wt), v: p}, true
		}
		return m.newError(s), true
	})
	reg("errors.Is", func(m *Machine, c *frame, _ *ssa.Function, a []Value) (Value, bool) {
		err, target := a[0].(Iface), a[1].(Iface)
		if err.t == nil || target.t == nil {
			return BoolV{C: err.t == nil && target.t == nil}, true
		}
		var is func(e Iface, depth int) bool
		is = func(e Iface, depth int) bool {
			for depth < 50 {
				if types.Comparable(target.t) && types.Identical(e.t, target.t) {
					if eq := m.equalVals(e.v, target.v); m.branch(eq, "errors.Is") {
						return true
					}
				}
				if f := m.methodOf(e.t, "Is"); f != nil && f.Signature.Params().Len() == 1 {
					if r, ok := m.callSSA(c, f, []Value{e.v, target}, nil).(BoolV); ok && m.branch(r, "errors.Is") {
						return true
					}
				}
				f := m.methodOf(e.t, "Unwrap")
				if f == nil {
					return false
				}
				r := m.callSSA(c, f, []Value{e.v}, nil)
				switch x := r.(type) {
				case Iface:
					if x.t == nil {
						return false
					}
					e = x
				case Slice:
					for i := 0; i < x.len; i++ {
						ei := x.o.slots[x.off+i].(Iface)
						if ei.t != nil && is(ei, depth+1) {
							return true
						}
					}
					return false
				default:
					return false
				}
				depth++
			}
			return false
		}
		return BoolV{C: is(err, 0)}, true
	})
	reg("errors.Unwrap", func(m *Machine, c *frame, _ *ssa.Function, a []Value) (Value, bool) {
		err := a[0].(Iface)
		if err.t == nil {
			return Iface{}, true
		}
		f := m.methodOf(err.t, "Unwrap")
		if f == nil {
			return Iface{}, true
		}
		r, ok := m.callSSA(c, f, []Value{err.v}, nil).(Iface)
		if !ok {
			return Iface{}, true
		}
		return r, true
	})
}

// symHex formats a symbolic integer with %x / %Nx / %0Nx: forks on the digit count, the
// digits themselves stay symbolic.
func (m *Machine) symHex(v BV, signed bool, spec string, upper bool) (Str, bool) {
	flags := spec[1 : len(spec)-1]
	zero := false
	width := 0
	for i := 0; i < len(flags); i++ {
		c := flags[i]
		switch {
		case c == '0' && width == 0:
			zero = true
		case c >= '0' && c <= '9':
			width = width*10 + int(c-'0')
		default:
			return Str{}, false
		}
	}
	tc := m.tc
	w := uint16(v.W)
	if signed {
		neg := m.fromTerm(tc.Cmp(OpSlt, v.T, tc.Const(w, 0))).(BoolV)
		if m.branch(neg, "hex-sign") {
			return Str{}, false
		}
	}
	nd := int(w) / 4
	for k := 1; k < int(w)/4; k++ {
		lim := tc.Const(w, uint64(1)<<(4*uint(k)))
		if m.branch(m.fromTerm(tc.Cmp(OpUlt, v.T, lim)).(BoolV), "hex-digits") {
			nd = k
			break
		}
	}
	var bs []BV
	pad := byte(' ')
	if zero {
		pad = '0'
	}
	for i := nd; i < width; i++ {
		bs = append(bs, mkInt(8, uint64(pad)))
	}
	alpha := uint64('a' - 10)
	if upper {
		alpha = 'A' - 10
	}
	for i := nd - 1; i >= 0; i-- {
		nib := tc.Zext(tc.Extract(v.T, 4*i+3, 4*i), 8)
		ch := tc.Ite(tc.Cmp(OpUlt, nib, tc.Const(8, 10)), tc.Bin(OpAdd, nib, tc.Const(8, '0')), tc.Bin(OpAdd, nib, tc.Const(8, alpha)))
		bs = append(bs, m.fromTerm(ch).(BV))
	}
	return strFromBytes(bs), true
}

// symDec formats a symbolic integer in decimal: forks on sign and digit count (up to 5
// digits), the digits stay symbolic (division by constants).
func (m *Machine) symDec(v BV, signed bool) (Str, bool) {
	tc := m.tc
	w := uint16(v.W)
	t := v.T
	neg := false
	if signed {
		if m.branch(m.fromTerm(tc.Cmp(OpSlt, t, tc.Const(w, 0))).(BoolV), "dec-sign") {
			neg = true
			t = tc.Neg(t)
		}
	}
	nd := 0
	lim := uint64(10)
	for k := 1; k <= 5; k++ {
		if m.branch(m.fromTerm(tc.Cmp(OpUlt, t, tc.Const(w, lim))).(BoolV), "dec-digits") {
			nd = k
			break
		}
		lim *= 10
	}
	if nd == 0 {
		return Str{}, false
	}
	var bs []BV
	if neg {
		bs = append(bs, mkInt(8, '-'))
	}
	pow := uint64(1)
	for i := 1; i < nd; i++ {
		pow *= 10
	}
	for i := 0; i < nd; i++ {
		q := tc.Bin(OpUDiv, t, tc.Const(w, pow))
		d := tc.Bin(OpURem, q, tc.Const(w, 10))
		ch := tc.Bin(OpAdd, tc.Extract(d, 7, 0), tc.Const(8, '0'))
		bs = append(bs, m.fromTerm(ch).(BV))
		pow /= 10
	}
	return strFromBytes(bs), true
}
