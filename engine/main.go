package main

import (
	"encoding/json"
	"flag"
	"fmt"
	"os"
	"path/filepath"
	"runtime"
	"runtime/debug"
	"runtime/pprof"
	"sort"
	"strings"
	"time"

	"golang.org/x/tools/go/packages"
	"golang.org/x/tools/go/ssa"
	"golang.org/x/tools/go/ssa/ssautil"
)

var verifDir = "/verif"

func repoDir() string {
	if d := os.Getenv("VERIF_REPO"); d != "" {
		return d
	}
	return "/repo"
}

// overlayFiles maps virtual paths inside the repo to harness sources under /verif/harness.
func overlayFiles() (map[string]string, error) {
	out := map[string]string{}
	root := filepath.Join(verifDir, "harness")
	err := filepath.Walk(root, func(p string, info os.FileInfo, err error) error {
		if err != nil {
			return err
		}
		if info.IsDir() || !strings.HasSuffix(p, ".go") {
			return nil
		}
		rel, _ := filepath.Rel(root, p)
		// harness/zzverif/* -> internal/zzverif/* ; harness/root/* -> repo root; others keep path
		var virt string
		switch {
		case strings.HasPrefix(rel, "zzverif/"):
			virt = filepath.Join(repoDir(), "internal", rel)
		case strings.HasPrefix(rel, "root/"):
			virt = filepath.Join(repoDir(), strings.TrimPrefix(rel, "root/"))
		default:
			virt = filepath.Join(repoDir(), rel)
		}
		out[virt] = p
		return nil
	})
	return out, err
}

func loadProgram() (*Program, error) {
	ov, err := overlayFiles()
	if err != nil {
		return nil, err
	}
	overlay := map[string][]byte{}
	for virt, real := range ov {
		b, err := os.ReadFile(real)
		if err != nil {
			return nil, err
		}
		// test-only replay drivers are not part of the symbolic program
		if strings.HasSuffix(virt, "_test.go") {
			continue
		}
		overlay[virt] = b
	}
	cfg := &packages.Config{Mode: packages.LoadAllSyntax, Dir: repoDir(), Overlay: overlay,
		Env: append(os.Environ(), "GOFLAGS=-mod=mod", "GOPROXY=off")}
	pkgs, err := packages.Load(cfg, "./...")
	if err != nil {
		return nil, err
	}
	nerr := 0
	packages.Visit(pkgs, nil, func(p *packages.Package) {
		for _, e := range p.Errors {
			if nerr < 20 {
				fmt.Fprintln(os.Stderr, "load error:", e)
			}
			nerr++
		}
	})
	if nerr > 0 {
		return nil, fmt.Errorf("%d package load errors (harness does not compile against this tree?)", nerr)
	}
	prog, _ := ssautil.AllPackages(pkgs, ssa.InstantiateGenerics)
	prog.Build()
	p := &Program{prog: prog, funcs: map[*ssa.Function]*cfunc{}, pkgs: map[string]*ssa.Package{}}
	for _, sp := range prog.AllPackages() {
		p.pkgs[sp.Pkg.Path()] = sp
	}
	return p, nil
}

func main() {
	if len(os.Args) < 2 {
		fmt.Fprintln(os.Stderr, "usage: gosx <check|selftest|run> ...")
		os.Exit(2)
	}
	if d := os.Getenv("VERIF_DIR"); d != "" {
		verifDir = d
	}
	debug.SetGCPercent(800)
	if p := os.Getenv("GOSX_PPROF"); p != "" {
		f, _ := os.Create(p)
		pprof.StartCPUProfile(f)
		defer pprof.StopCPUProfile()
	}
	switch os.Args[1] {
	case "run":
		fs := flag.NewFlagSet("run", flag.ExitOnError)
		harness := fs.String("harness", "", "pkgpath.Func")
		setup := fs.String("setup", "", "pkgpath.Func")
		params := fs.String("params", "", "k=v,k=v")
		workers := fs.Int("workers", runtime.NumCPU(), "")
		verbose := fs.Bool("v", false, "")
		tmo := fs.Int("timeout", 0, "seconds")
		maxSteps := fs.Int64("maxsteps", 0, "")
		fs.Parse(os.Args[2:])
		prog, err := loadProgram()
		if err != nil {
			fmt.Fprintln(os.Stderr, err)
			os.Exit(2)
		}
		job := &Job{Prop: "adhoc", Name: *harness, Harness: *harness, Setup: *setup, Params: map[string]string{}}
		if os.Getenv("GOSX_NOPAINT") != "" {
			job.Stubs = paintStubs
		}
		for _, kv := range strings.Split(*params, ",") {
			if i := strings.Index(kv, "="); i > 0 {
				job.Params[kv[:i]] = kv[i+1:]
			}
		}
		ex := NewExplorer(prog, *workers)
		ex.verbose = *verbose
		if *tmo > 0 {
			ex.deadline = time.Now().Add(time.Duration(*tmo) * time.Second)
		}
		ex.maxSteps = *maxSteps
		if os.Getenv("GOSX_SITES") != "" {
			siteStats = map[string]int{}
		}
		t0 := time.Now()
		ex.Run([]*Job{job})
		if siteStats != nil {
			type kv struct {
				k string
				n int
			}
			var l []kv
			for k, n := range siteStats {
				l = append(l, kv{k, n})
			}
			sort.Slice(l, func(i, j int) bool { return l[i].n > l[j].n })
			for i := 0; i < len(l) && i < 25; i++ {
				fmt.Println(l[i].n, l[i].k)
			}
		}
		fmt.Println(job.summary())
		fmt.Printf("solver: %d queries (%d sat, %d unsat, %d unknown) %.2fs; wall %.2fs; steps %d\n",
			ex.solverStats.q, ex.solverStats.sat, ex.solverStats.unsat, ex.solverStats.unk, ex.solverStats.t.Seconds(), time.Since(t0).Seconds(), job.steps)
		for _, u := range job.unsupported {
			fmt.Println("UNSUPPORTED:", u)
		}
		for _, v := range dedupViolations(job.violations) {
			b, _ := json.Marshal(v)
			fmt.Println("VIOL:", string(b))
		}
		for _, s := range job.samples {
			b, _ := json.Marshal(s)
			fmt.Println("SAMPLE:", string(b))
		}
	case "check":
		code := cmdCheck(os.Args[2:])
		pprof.StopCPUProfile()
		os.Exit(code)
	case "selftest":
		os.Exit(cmdSelftest(os.Args[2:]))
	default:
		fmt.Fprintln(os.Stderr, "unknown command", os.Args[1])
		os.Exit(2)
	}
}

func sigOf(v *Violation) string {
	return v.Kind + "|" + v.Label + "|" + v.Site + "|" + fmt.Sprint(v.Job)
}

func dedupViolations(vs []*Violation) []*Violation {
	seen := map[string]bool{}
	var out []*Violation
	for _, v := range vs {
		s := sigOf(v)
		if seen[s] {
			continue
		}
		seen[s] = true
		out = append(out, v)
	}
	return out
}
