package main

// One z3 process per worker, spoken to in SMT-LIB2 over pipes.

import (
	"bufio"
	"fmt"
	"io"
	"os"
	"os/exec"
	"sort"
	"strconv"
	"strings"
	"time"
)

type SatResult int

const (
	Sat SatResult = iota
	Unsat
	Unknown
)

func (r SatResult) String() string { return [...]string{"sat", "unsat", "unknown"}[r] }

type Solver struct {
	bin       string
	cmd       *exec.Cmd
	in        *bufio.Writer
	inRaw     io.WriteCloser
	out       *bufio.Reader
	defined   map[int32]bool
	declared  map[string]*Term
	apps      []*Term // abstracted unicode predicate/function applications of this scope (CEGAR)
	NLemmas   int
	recent    []string
	nerr      int
	scope     bool              // a path scope is open
	baseSyms  map[string]uint16 // symbols declared at base level (persist across paths)
	baseApps  map[string]bool   // "fn|sym" applications defined at base level with their full definition
	baseFns   map[string]bool
	timeoutMs int
	logf      *os.File
	logw      *bufio.Writer // query stream of this solver, with its answers as comments (cross-solver check)
	logMax    int
	logN      int

	NQueries, NSat, NUnsat, NUnknown int
	Time                             time.Duration
}

func NewSolver(bin string, timeoutMs int) (*Solver, error) {
	s := &Solver{bin: bin, timeoutMs: timeoutMs}
	if err := s.start(); err != nil {
		return nil, err
	}
	return s, nil
}

func (s *Solver) start() error {
	args := []string{"-in"}
	if strings.Contains(s.bin, "cvc5") {
		args = []string{"--incremental", "--lang=smt2", "--produce-models"}
	}
	cmd := exec.Command(s.bin, args...)
	in, err := cmd.StdinPipe()
	if err != nil {
		return err
	}
	out, err := cmd.StdoutPipe()
	if err != nil {
		return err
	}
	cmd.Stderr = nil
	if err := cmd.Start(); err != nil {
		return err
	}
	s.cmd = cmd
	s.inRaw = in
	s.in = bufio.NewWriterSize(in, 1<<16)
	s.out = bufio.NewReaderSize(out, 1<<16)
	s.Reset()
	return nil
}

// OpenLog starts recording the query stream (at most max check-sat calls; 0 = all).
func (s *Solver) OpenLog(path string, max int) {
	f, err := os.Create(path)
	if err != nil {
		return
	}
	s.logf = f
	s.logw = bufio.NewWriterSize(f, 1<<16)
	s.logMax = max
	// the stream so far (reset + options) is tiny: replay it
	s.logw.WriteString("(set-option :produce-models true)\n")
	if s.timeoutMs > 0 {
		fmt.Fprintf(s.logw, "(set-option :timeout %d)\n", s.timeoutMs)
	}
}

func (s *Solver) CloseLog() {
	if s.logw != nil {
		s.logw.Flush()
		s.logf.Close()
		s.logw = nil
		s.logf = nil
	}
}

func (s *Solver) Close() {
	s.CloseLog()
	if s.cmd != nil {
		s.inRaw.Close()
		s.cmd.Process.Kill()
		s.cmd.Wait()
		s.cmd = nil
	}
}

func (s *Solver) send(str string) {
	if s.logw != nil {
		s.logw.WriteString(str)
	}
	s.recent = append(s.recent, str)
	if len(s.recent) > 400 {
		s.recent = s.recent[200:]
	}
	s.in.WriteString(str)
}

// Reset clears everything, including base-level definitions.
func (s *Solver) Reset() {
	s.defined = map[int32]bool{}
	s.declared = map[string]*Term{}
	s.apps = nil
	s.scope = false
	s.baseSyms = map[string]uint16{}
	s.baseApps = map[string]bool{}
	s.baseFns = map[string]bool{}
	s.send("(reset)\n(set-option :produce-models true)\n")
	if s.timeoutMs > 0 && !strings.Contains(s.bin, "cvc5") {
		s.send(fmt.Sprintf("(set-option :timeout %d)\n", s.timeoutMs))
	}
}

// BeginPath opens a fresh scope for one path; base-level definitions survive.
func (s *Solver) BeginPath() {
	if s.scope {
		s.send("(pop 1)\n")
	}
	s.send("(push 1)\n")
	s.scope = true
	s.defined = map[int32]bool{}
	s.declared = map[string]*Term{}
	s.apps = nil
}

var fnCegar = os.Getenv("GOSX_FNCEGAR") != ""

func isBaseApp(t *Term) bool {
	if t.op == OpFn32 && fnCegar {
		return false
	}
	return (t.op == OpPred || t.op == OpFn32) && t.a.op == OpSym
}

func baseKey(t *Term) string { return t.name + "|" + t.a.name }

// NeedBase reports whether t is a unicode application on a plain symbol that has not yet
// been given its full definition at base level.
func (s *Solver) NeedBase(t *Term) bool { return isBaseApp(t) && !s.baseApps[baseKey(t)] }

// AddBase defines applications at base level (closing the current scope first): the
// symbol, the complete range formula of the function, and a constant equal to its value.
// Their internalisation is paid once per solver process instead of once per path.
func (s *Solver) AddBase(apps []*Term) {
	if s.scope {
		s.send("(pop 1)\n")
		s.scope = false
	}
	for _, t := range apps {
		if !s.NeedBase(t) {
			continue
		}
		sym := t.a
		if w, ok := s.baseSyms[sym.name]; ok && w != sym.w {
			// same name, other width (different harness): start over
			s.Reset()
		}
		if _, ok := s.baseSyms[sym.name]; !ok {
			s.baseSyms[sym.name] = sym.w
			s.send(fmt.Sprintf("(declare-const |%s| %s)\n", sym.name, sortOf(sym.w)))
		}
		if !s.baseFns[t.name] {
			s.baseFns[t.name] = true
			s.send(unicodeFullSMT(t.name))
		}
		s.baseApps[baseKey(t)] = true
		s.send(fmt.Sprintf("(declare-const %s %s)\n(assert (= %s (|%s| |%s|)))\n", smtRef(t), sortOf(t.w), smtRef(t), t.name, sym.name))
	}
}

// define makes sure t (and everything below it) is known to the solver.
func (s *Solver) define(t *Term) {
	if t == nil {
		return
	}
	switch t.op {
	case OpConst:
		return
	case OpSym:
		s.declareSym(t)
		return
	}
	if s.defined[t.id] {
		return
	}
	if isBaseApp(t) {
		s.declareSym(t.a)
		return
	}
	// iterative post-order to avoid deep recursion on long chains
	type fr struct {
		t *Term
		i int
	}
	stack := []fr{{t, 0}}
	for len(stack) > 0 {
		f := &stack[len(stack)-1]
		kids := [3]*Term{f.t.a, f.t.b, f.t.c}
		if f.i < 3 {
			k := kids[f.i]
			f.i++
			if k == nil || k.op == OpConst {
				continue
			}
			if k.op == OpSym {
				s.declareSym(k)
				continue
			}
			if isBaseApp(k) {
				s.declareSym(k.a)
				continue
			}
			if !s.defined[k.id] {
				stack = append(stack, fr{k, 0})
			}
			continue
		}
		tt := f.t
		stack = stack[:len(stack)-1]
		if s.defined[tt.id] {
			continue
		}
		s.defined[tt.id] = true
		if tt.op == OpPred || tt.op == OpFn32 {
			// abstracted: an unconstrained constant refined by range lemmas (see Check)
			s.apps = append(s.apps, tt)
			s.send(fmt.Sprintf("(declare-const u!%d %s)\n", tt.id, sortOf(tt.w)))
			continue
		}
		s.send(fmt.Sprintf("(define-fun t!%d () %s %s)\n", tt.id, sortOf(tt.w), smtDef(tt)))
	}
}

func (s *Solver) declareSym(t *Term) {
	if w, ok := s.baseSyms[t.name]; ok {
		if w != t.w {
			fmt.Fprintf(os.Stderr, "solver: symbol %s redeclared with another width\n", t.name)
		}
		return
	}
	if _, ok := s.declared[t.name]; !ok {
		s.declared[t.name] = t
		s.send(fmt.Sprintf("(declare-const |%s| %s)\n", t.name, sortOf(t.w)))
	}
}

func (s *Solver) Assert(t *Term) {
	s.define(t)
	s.send("(assert " + smtRef(t) + ")\n")
}

func (s *Solver) readLine() (string, error) {
	line, err := s.out.ReadString('\n')
	return strings.TrimSpace(line), err
}

// Check decides satisfiability of the asserted constraints plus the optional extras.
// With wantModel it also returns values for all declared symbols on sat.
//
// Unicode predicates and case mappings are abstracted as free constants; after every sat
// answer the model is checked against the real functions and, where it disagrees, a range
// lemma (a true fact about the function) is asserted and the query repeated. unsat under
// the abstraction is unsat; sat is only reported for models consistent with the functions.
func (s *Solver) Check(symTerms []*Term, extra ...*Term) (SatResult, Model) {
	for _, e := range extra {
		s.define(e)
	}
	t0 := time.Now()
	defer func() { s.Time += time.Since(t0) }()
	for iter := 0; ; iter++ {
		res, vals, syms := s.checkOnce(symTerms, extra)
		if res != Sat {
			s.count(res)
			return res, nil
		}
		// refine
		nsym := len(syms)
		lemmas := ""
		for i, app := range s.apps {
			argv := vals[nsym+2*i]
			appv := vals[nsym+2*i+1]
			var want uint64
			if app.op == OpPred {
				if evalPred(app.name, argv) {
					want = 1
				}
			} else {
				want = evalFn32(app.name, argv)
			}
			if want != appv {
				lemmas += uniLemma(app.name, argv, smtRef(app.a), smtRef(app))
			}
		}
		if lemmas == "" {
			s.count(Sat)
			model := Model{}
			for i, name := range syms {
				model[name] = vals[i]
			}
			return Sat, model
		}
		s.NLemmas++
		s.send(lemmas)
		if iter > 3000 {
			s.count(Unknown)
			return Unknown, nil
		}
	}
}

func (s *Solver) count(r SatResult) {
	s.NQueries++
	switch r {
	case Sat:
		s.NSat++
	case Unsat:
		s.NUnsat++
	default:
		s.NUnknown++
	}
}

// checkOnce runs one check-sat under push/pop and, on sat, fetches the values of all
// declared symbols followed by (argument, result) of every abstracted application.
func (s *Solver) checkOnce(symTerms []*Term, extra []*Term) (SatResult, []uint64, []string) {
	s.send("(push 1)\n")
	for _, e := range extra {
		s.send("(assert " + smtRef(e) + ")\n")
	}
	s.send("(check-sat)\n")
	s.in.Flush()
	tq := time.Now()
	defer func() {
		if s.logw != nil {
			fmt.Fprintf(s.logw, "; took %.1fms\n", float64(time.Since(tq).Microseconds())/1000)
		}
	}()
	res := Unknown
	sawErr := false
	for {
		line, err := s.readLine()
		if err != nil {
			s.Close()
			s.start()
			return Unknown, nil, nil
		}
		if line == "sat" {
			res = Sat
			break
		}
		if line == "unsat" {
			res = Unsat
			break
		}
		if line == "unknown" || line == "timeout" {
			res = Unknown
			break
		}
		if strings.HasPrefix(line, "(error") {
			sawErr = true
			fmt.Fprintln(os.Stderr, "solver error:", line)
			s.nerr++
			if s.nerr <= 2 {
				n := len(s.recent)
				if n > 60 {
					n = 60
				}
				fmt.Fprintln(os.Stderr, "recent solver input:\n"+strings.Join(s.recent[len(s.recent)-n:], ""))
			}
		}
	}
	if sawErr {
		res = Unknown
	}
	if s.logw != nil {
		fmt.Fprintf(s.logw, "; answer %s\n", map[SatResult]string{Sat: "sat", Unsat: "unsat", Unknown: "unknown"}[res])
		s.logN++
		if s.logMax > 0 && s.logN >= s.logMax {
			s.CloseLog()
		}
	}
	var vals []uint64
	var syms []string
	if res == Sat && (len(symTerms) > 0 || len(s.apps) > 0) {
		var sb strings.Builder
		sb.WriteString("(get-value (")
		for _, st := range symTerms {
			syms = append(syms, st.name)
		}
		sort.Strings(syms)
		for _, name := range syms {
			sb.WriteString("|" + name + "| ")
		}
		for _, app := range s.apps {
			sb.WriteString(smtRef(app.a) + " " + smtRef(app) + " ")
		}
		sb.WriteString("))\n")
		s.send(sb.String())
		s.in.Flush()
		txt := s.readSexp()
		vals = parseValues(txt)
		if len(vals) != len(syms)+2*len(s.apps) {
			fmt.Fprintf(os.Stderr, "solver: get-value returned %d values, want %d: %.200s\n", len(vals), len(syms)+2*len(s.apps), txt)
			res = Unknown
		}
	}
	s.send("(pop 1)\n")
	return res, vals, syms
}

func (s *Solver) readSexp() string {
	var sb strings.Builder
	depth := 0
	started := false
	inBar := false
	for {
		b, err := s.out.ReadByte()
		if err != nil {
			return sb.String()
		}
		sb.WriteByte(b)
		if b == '|' {
			inBar = !inBar
		}
		if inBar {
			continue
		}
		if b == '(' {
			depth++
			started = true
		} else if b == ')' {
			depth--
			if started && depth == 0 {
				// consume rest of line
				s.out.ReadString('\n')
				return sb.String()
			}
		}
	}
}

// parseValues extracts, in order, the value of each (term value) pair of a get-value
// answer: "((|a| #x01) (t5 true) ((_ extract ...) #b1) ...)".
func parseValues(txt string) []uint64 {
	var out []uint64
	depth := 0
	inBar := false
	i := 0
	n := len(txt)
	pairStart := -1
	for i < n {
		c := txt[i]
		if c == '|' {
			inBar = !inBar
			i++
			continue
		}
		if inBar {
			i++
			continue
		}
		switch c {
		case '(':
			depth++
			if depth == 2 {
				pairStart = i
			}
		case ')':
			if depth == 2 && pairStart >= 0 {
				// value is the last token before this paren (at depth 2)
				pair := txt[pairStart+1 : i]
				out = append(out, lastValue(pair))
				pairStart = -1
			}
			depth--
		}
		i++
	}
	return out
}

func lastValue(pair string) uint64 {
	pair = strings.TrimSpace(pair)
	// value forms: true false #x.. #b.. (_ bvN w)
	if strings.HasSuffix(pair, ")") {
		j := strings.LastIndex(pair, "(_ bv")
		if j >= 0 {
			var v uint64
			fmt.Sscanf(pair[j+5:], "%d", &v)
			return v
		}
	}
	j := strings.LastIndexAny(pair, " \n\t")
	tok := pair[j+1:]
	switch {
	case tok == "true":
		return 1
	case tok == "false":
		return 0
	case strings.HasPrefix(tok, "#x"):
		v, _ := strconv.ParseUint(tok[2:], 16, 64)
		return v
	case strings.HasPrefix(tok, "#b"):
		v, _ := strconv.ParseUint(tok[2:], 2, 64)
		return v
	}
	return 0
}
