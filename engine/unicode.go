package main

// Unicode predicates and case mappings as SMT define-funs, generated at run time from the
// running toolchain's unicode package by exhaustive evaluation over 0..0x10FFFF and
// run-length encoding (so the formula is exact by construction).

import (
	"fmt"
	"strings"
	"sync"
	"unicode"
)

var uniPreds = map[string]func(rune) bool{
	"IsSpace":   unicode.IsSpace,
	"IsControl": unicode.IsControl,
	"IsLetter":  unicode.IsLetter,
	"IsLower":   unicode.IsLower,
	"IsUpper":   unicode.IsUpper,
	"IsPrint":   unicode.IsPrint,
	"IsPunct":   unicode.IsPunct,
	"IsDigit":   unicode.IsDigit,
	"IsNumber":  unicode.IsNumber,
	"IsGraphic": unicode.IsGraphic,
	"IsSymbol":  unicode.IsSymbol,
	"IsMark":    unicode.IsMark,
	"IsTitle":   unicode.IsTitle,
	"Wide2":     runeIsWide,
	"Width0":    runeIsZeroWidth,
}

var uniFns = map[string]func(rune) rune{
	"ToLower": unicode.ToLower,
	"ToUpper": unicode.ToUpper,
	"ToTitle": unicode.ToTitle,
}

func init() {
	for n, f := range uniFns {
		f := f
		uniPreds[n+"Fixed"] = func(r rune) bool { return f(r) == r }
	}
}

// predFunc resolves a predicate name; "<Fn>#D:<delta>" means Fn(r)-r == delta.
func predFunc(name string) func(rune) bool {
	if f := uniPreds[name]; f != nil {
		return f
	}
	if i := strings.Index(name, "#D:"); i > 0 {
		f := uniFns[name[:i]]
		var d int
		fmt.Sscanf(name[i+3:], "%d", &d)
		if f != nil {
			return func(r rune) bool { return r >= 0 && r <= 0x10FFFF && int(f(r))-int(r) == d }
		}
	}
	panic("unknown predicate " + name)
}

func evalPred(name string, k uint64) bool {
	return predFunc(name)(rune(int32(uint32(k))))
}

func evalFn32(name string, k uint64) uint64 {
	f := uniFns[name]
	if f == nil {
		panic("unknown fn " + name)
	}
	return uint64(uint32(f(rune(int32(uint32(k))))))
}

type urange struct {
	lo, hi uint32
	stride uint32 // 1 or 2
	delta  int32
}

func compress(rs []urange) []urange {
	// merge runs of singletons with step 2 and identical delta into stride-2 ranges
	var out []urange
	for i := 0; i < len(rs); {
		r := rs[i]
		if r.lo == r.hi {
			j := i
			for j+1 < len(rs) && rs[j+1].lo == rs[j+1].hi && rs[j+1].lo == rs[j].lo+2 && rs[j+1].delta == r.delta {
				j++
			}
			if j-i >= 2 {
				out = append(out, urange{r.lo, rs[j].lo, 2, r.delta})
				i = j + 1
				continue
			}
		}
		out = append(out, r)
		i++
	}
	return out
}

func rangeCond(r urange) string {
	lo := fmt.Sprintf("#x%08x", r.lo)
	hi := fmt.Sprintf("#x%08x", r.hi)
	if r.lo == r.hi {
		return "(= r " + lo + ")"
	}
	c := "(and (bvule " + lo + " r) (bvule r " + hi + ")"
	if r.stride == 2 {
		c += " (= ((_ extract 0 0) (bvsub r " + lo + ")) #b0)"
	}
	return c + ")"
}

var uniCache sync.Map

// uniRanges returns the sorted, compressed ranges on which predicate `name` is true, or on
// which function `name` moves its argument (by .delta).
func uniRanges(name string) []urange {
	if v, ok := uniCache.Load(name); ok {
		return v.([]urange)
	}
	var rs []urange
	if _, isFn := uniFns[name]; !isFn {
		f := predFunc(name)
		in := false
		var lo uint32
		for r := uint32(0); r <= 0x110000; r++ {
			v := r <= 0x10FFFF && f(rune(r))
			if v && !in {
				in = true
				lo = r
			} else if !v && in {
				in = false
				rs = append(rs, urange{lo, r - 1, 1, 0})
			}
		}
	} else if f, ok := uniFns[name]; ok {
		in := false
		var lo uint32
		var d int32
		for r := uint32(0); r <= 0x110000; r++ {
			var dd int32
			if r <= 0x10FFFF {
				dd = int32(f(rune(r))) - int32(r)
			}
			if in && dd != d {
				rs = append(rs, urange{lo, r - 1, 1, d})
				in = false
			}
			if !in && dd != 0 {
				in = true
				lo = r
				d = dd
			}
		}
	} else {
		panic("uniRanges: unknown " + name)
	}
	rs = compress(rs)
	uniCache.Store(name, rs)
	return rs
}

// uniLemma returns an SMT lemma (over argument text `arg` and result text `app`) that is a
// true fact about function/predicate `name` and pins its value on a whole range around v.
func uniLemma(name string, v uint64, arg, app string) string {
	rs := uniRanges(name)
	_, isFn := uniFns[name]
	isPred := !isFn
	// find first range with hi >= v
	lo, hi := 0, len(rs)
	for lo < hi {
		mid := (lo + hi) / 2
		if uint64(rs[mid].hi) < v {
			lo = mid + 1
		} else {
			hi = mid
		}
	}
	cond := ""
	inRange := false
	var delta int32
	if lo < len(rs) && uint64(rs[lo].lo) <= v {
		r := rs[lo]
		par := fmt.Sprintf("(= ((_ extract 0 0) (bvsub %s #x%08x)) #b0)", arg, r.lo)
		base := fmt.Sprintf("(bvule #x%08x %s) (bvule %s #x%08x)", r.lo, arg, arg, r.hi)
		if r.stride == 1 {
			cond = "(and " + base + ")"
			inRange = true
		} else if (v-uint64(r.lo))%2 == 0 {
			cond = "(and " + base + " " + par + ")"
			inRange = true
		} else {
			cond = "(and " + base + " (not " + par + "))"
		}
		delta = r.delta
	} else {
		// gap before rs[lo]
		var glo, ghi uint64 = 0, 0xFFFFFFFF
		if lo > 0 {
			glo = uint64(rs[lo-1].hi) + 1
		}
		if lo < len(rs) {
			ghi = uint64(rs[lo].lo) - 1
		}
		cond = fmt.Sprintf("(and (bvule #x%08x %s) (bvule %s #x%08x))", glo, arg, arg, ghi)
	}
	var concl string
	switch {
	case isPred && inRange:
		concl = app
	case isPred:
		concl = "(not " + app + ")"
	case inRange:
		concl = fmt.Sprintf("(= %s (bvadd %s #x%08x))", app, arg, uint32(delta))
	default:
		concl = fmt.Sprintf("(= %s %s)", app, arg)
	}
	return "(assert (=> " + cond + " " + concl + "))\n"
}

// unicodeFullSMT gives the complete definition of a predicate/function as one define-fun.
func unicodeFullSMT(name string) string {
	rs := uniRanges(name)
	var sb strings.Builder
	if _, isFn := uniFns[name]; !isFn {
		sb.WriteString("(define-fun |" + name + "| ((r (_ BitVec 32))) Bool (or false")
		for _, r := range rs {
			sb.WriteString(" " + rangeCond(r))
		}
		sb.WriteString("))\n")
		return sb.String()
	}
	// group ranges by delta: f(r) = r + D(r), D an ite over a few dozen wide disjunctions
	byDelta := map[int32][]urange{}
	var deltas []int32
	for _, r := range rs {
		if _, ok := byDelta[r.delta]; !ok {
			deltas = append(deltas, r.delta)
		}
		byDelta[r.delta] = append(byDelta[r.delta], r)
	}
	sb.WriteString("(define-fun |" + name + "| ((r (_ BitVec 32))) (_ BitVec 32) (bvadd r ")
	for _, d := range deltas {
		sb.WriteString("(ite (or false")
		for _, r := range byDelta[d] {
			sb.WriteString(" " + rangeCond(r))
		}
		sb.WriteString(fmt.Sprintf(") #x%08x ", uint32(d)))
	}
	sb.WriteString("#x00000000")
	sb.WriteString(strings.Repeat(")", len(deltas)))
	sb.WriteString("))\n")
	return sb.String()
}
