package main

// Intrinsics: harness API, environment stubs, native pass-through and models of
// standard-library functions.

import (
	"fmt"
	"go/types"
	"math"
	"os"
	"path/filepath"
	"reflect"
	"regexp"
	"sort"
	"strconv"
	"strings"
	"unicode/utf8"

	"golang.org/x/tools/go/ssa"
)

type intrinsicFn func(m *Machine, caller *frame, fn *ssa.Function, args []Value) (Value, bool)

const repoPath = "github.com/reeflective/readline"
const zzPath = repoPath + "/internal/zzverif"

// packages whose init functions (package-level variable initialisers) are interpreted
var initAllowed = map[string]bool{
	"errors": false, "io": true, "internal/oserror": true, "io/fs": true, "sort": true,
	"strings": true, "strconv": true, "bufio": true, "bytes": true, "unicode/utf8": true,
	"slices": true, "path": true, "internal/bytealg": false, "internal/stringslite": true,
	"golang.org/x/exp/slices": true, "golang.org/x/exp/constraints": true, "cmp": true,
	"internal/itoa": true, "math/bits": true, "unicode/utf16": true,
}

func pkgInitAllowed(path string) bool {
	if strings.HasPrefix(path, repoPath) {
		return true
	}
	return initAllowed[path]
}

func (m *Machine) intrinsic(fn *ssa.Function) (intrinsicFn, bool) {
	if f, ok := m.intr[fn]; ok {
		return f, true
	}
	if m.noIntr[fn] {
		return nil, false
	}
	var f intrinsicFn
	name := fn.String()
	if m.stubSet[name] {
		f = func(m *Machine, _ *frame, fn *ssa.Function, _ []Value) (Value, bool) {
			return m.zeroResults(fn), true
		}
	} else if fn.Synthetic == "package initializer" {
		if !pkgInitAllowed(fn.Pkg.Pkg.Path()) {
			f = func(m *Machine, _ *frame, fn *ssa.Function, _ []Value) (Value, bool) {
				m.inited[fn.Pkg] = true
				return nil, true
			}
		} else {
			f = func(m *Machine, _ *frame, fn *ssa.Function, _ []Value) (Value, bool) {
				m.inited[fn.Pkg] = true
				return nil, false
			}
		}
	} else if g, ok := intrinsics[name]; ok {
		f = g
	} else if nat, ok := natives[name]; ok {
		f = nativeBridge(nat)
	}
	if f == nil {
		m.noIntr[fn] = true
		return nil, false
	}
	m.intr[fn] = f
	return f, true
}

// lazyInit runs the initializer of an allowed package whose global is touched first.
func (m *Machine) lazyInit(pkg *ssa.Package) {
	if !pkgInitAllowed(pkg.Pkg.Path()) {
		m.inited[pkg] = true
		return
	}
	if m.initing[pkg] {
		return
	}
	m.initing[pkg] = true
	init := pkg.Func("init")
	// run outside path logging semantics: init belongs to the checkpoint
	if m.logging {
		m.unsupported("package %s initialised lazily after the checkpoint; add it to the setup", pkg.Pkg.Path())
	}
	m.callSSA(m.cur, init, nil, nil)
	m.initing[pkg] = false
	m.inited[pkg] = true
}

// initAll runs the initialisers of all repo packages (dependencies first, as the SSA init
// functions do themselves).
func (m *Machine) initAll() {
	m.setupSpecialGlobals()
	var paths []string
	for p := range m.prog.pkgs {
		if strings.HasPrefix(p, repoPath) {
			paths = append(paths, p)
		}
	}
	sort.Strings(paths)
	for _, p := range paths {
		pkg := m.prog.pkgs[p]
		if init := pkg.Func("init"); init != nil {
			m.callSSA(nil, init, nil, nil)
		}
	}
}

func (m *Machine) namedType(pkg, name string) types.Type {
	p := m.prog.pkgs[pkg]
	if p == nil {
		return nil
	}
	t := p.Type(name)
	if t == nil {
		return nil
	}
	return t.Type()
}

func (m *Machine) newError(msg Str) Value {
	et := m.namedType("errors", "errorString")
	if et == nil {
		panic("errors.errorString not found")
	}
	p := m.allocType(et)
	p.o.slots[0] = msg
	return Iface{t: types.NewPointer(et), v: p}
}

func (m *Machine) setGlobal(pkg, name string, v Value) {
	p := m.prog.pkgs[pkg]
	if p == nil {
		return
	}
	g, ok := p.Members[name].(*ssa.Global)
	if !ok {
		return
	}
	t := g.Type().(*types.Pointer).Elem()
	ptr := m.allocType(t)
	ptr.o.epoch = 0
	ptr.o.tag = "global " + g.String()
	m.globals[g] = ptr
	m.store(ptr, t, v)
}

func (m *Machine) getGlobal(pkg, name string) Value {
	p := m.prog.pkgs[pkg]
	if p == nil {
		return nil
	}
	g, ok := p.Members[name].(*ssa.Global)
	if !ok {
		return nil
	}
	return m.load(m.globalAddr(g), g.Type().(*types.Pointer).Elem())
}

func (m *Machine) setupSpecialGlobals() {
	if ft := m.namedType("os", "File"); ft != nil {
		for fd, name := range []string{"Stdin", "Stdout", "Stderr"} {
			p := m.allocType(ft)
			p.o.nat = fd
			p.o.tag = "os." + name
			m.setGlobal("os", name, p)
		}
		m.setGlobal("os", "Args", func() Value {
			sl := m.makeSlice(types.Typ[types.String], 1, 1)
			sl.o.slots[0] = Str{S: "zzverif"}
			return sl
		}())
		if st := m.namedType("syscall", "Signal"); st != nil {
			m.setGlobal("os", "Interrupt", Iface{t: st, v: mkInt(64, 2)})
			m.setGlobal("os", "Kill", Iface{t: st, v: mkInt(64, 9)})
		}
	}
	// errors of package os alias those of io/fs; run that initialiser and copy.
	if fs := m.prog.pkgs["io/fs"]; fs != nil {
		m.callSSA(nil, fs.Func("init"), nil, nil)
		for _, n := range []string{"ErrInvalid", "ErrPermission", "ErrExist", "ErrNotExist", "ErrClosed"} {
			if v := m.getGlobal("io/fs", n); v != nil {
				m.setGlobal("os", n, v)
			}
		}
	}
}

// ---------------------------------------------------------------------------
// helpers

func argStr(v Value) Str { return v.(Str) }

func deepConcrete(v Value) bool {
	switch x := v.(type) {
	case BV:
		return x.T == nil
	case BoolV:
		return x.T == nil
	case Str:
		return x.Sym == nil
	case F64:
		return true
	case Slice:
		if x.o == nil {
			return true
		}
		for i := 0; i < x.len*x.es; i++ {
			if !deepConcrete(x.o.slots[x.off+i]) {
				return false
			}
		}
		return true
	case Tuple:
		for _, e := range x {
			if !deepConcrete(e) {
				return false
			}
		}
		return true
	case Iface:
		if x.t == nil {
			return true
		}
		return deepConcrete(x.v)
	case Ptr:
		return true
	case nil:
		return true
	}
	return false
}

func (m *Machine) toNative(v Value, rt reflect.Type) (reflect.Value, bool) {
	switch rt.Kind() {
	case reflect.String:
		s, ok := v.(Str)
		if !ok || s.Sym != nil {
			return reflect.Value{}, false
		}
		return reflect.ValueOf(s.S).Convert(rt), true
	case reflect.Int, reflect.Int8, reflect.Int16, reflect.Int32, reflect.Int64:
		b, ok := v.(BV)
		if !ok || b.T != nil {
			return reflect.Value{}, false
		}
		return reflect.ValueOf(b.sval()).Convert(rt), true
	case reflect.Uint, reflect.Uint8, reflect.Uint16, reflect.Uint32, reflect.Uint64, reflect.Uintptr:
		b, ok := v.(BV)
		if !ok || b.T != nil {
			return reflect.Value{}, false
		}
		return reflect.ValueOf(b.C).Convert(rt), true
	case reflect.Bool:
		b, ok := v.(BoolV)
		if !ok || b.T != nil {
			return reflect.Value{}, false
		}
		return reflect.ValueOf(b.C), true
	case reflect.Float64, reflect.Float32:
		f, ok := v.(F64)
		if !ok {
			return reflect.Value{}, false
		}
		return reflect.ValueOf(float64(f)).Convert(rt), true
	case reflect.Slice:
		s, ok := v.(Slice)
		if !ok {
			return reflect.Value{}, false
		}
		out := reflect.MakeSlice(rt, s.len, s.len)
		if s.es != 1 && s.len > 0 {
			return reflect.Value{}, false
		}
		for i := 0; i < s.len; i++ {
			e, ok := m.toNative(s.o.slots[s.off+i], rt.Elem())
			if !ok {
				return reflect.Value{}, false
			}
			out.Index(i).Set(e)
		}
		if s.o == nil {
			return reflect.Zero(rt), true
		}
		return out, true
	case reflect.Interface:
		// any: only basic dynamic values
		iv, ok := v.(Iface)
		if !ok {
			return reflect.Value{}, false
		}
		if iv.t == nil {
			return reflect.Zero(rt), true
		}
		nv, ok := m.ifaceToNative(iv)
		if !ok {
			return reflect.Value{}, false
		}
		r := reflect.New(rt).Elem()
		r.Set(reflect.ValueOf(nv))
		return r, true
	case reflect.Ptr:
		p, ok := v.(Ptr)
		if !ok {
			return reflect.Value{}, false
		}
		if p.o == nil {
			return reflect.Zero(rt), true
		}
		if p.o.nat != nil && reflect.TypeOf(p.o.nat) == rt {
			return reflect.ValueOf(p.o.nat), true
		}
	}
	return reflect.Value{}, false
}

// ifaceToNative converts an interface holding a basic (possibly named) value.
func (m *Machine) ifaceToNative(iv Iface) (any, bool) {
	switch u := iv.t.Underlying().(type) {
	case *types.Basic:
		switch x := iv.v.(type) {
		case Str:
			if x.Sym != nil {
				return nil, false
			}
			return x.S, true
		case BV:
			if x.T != nil {
				return nil, false
			}
			switch u.Kind() {
			case types.Int:
				return int(x.sval()), true
			case types.Int8:
				return int8(x.sval()), true
			case types.Int16:
				return int16(x.sval()), true
			case types.Int32:
				return int32(x.sval()), true
			case types.Int64:
				return int64(x.sval()), true
			case types.Uint:
				return uint(x.C), true
			case types.Uint8:
				return uint8(x.C), true
			case types.Uint16:
				return uint16(x.C), true
			case types.Uint32:
				return uint32(x.C), true
			case types.Uint64:
				return uint64(x.C), true
			case types.Uintptr:
				return uintptr(x.C), true
			}
		case BoolV:
			if x.T != nil {
				return nil, false
			}
			return x.C, true
		case F64:
			return float64(x), true
		}
	case *types.Slice:
		s := iv.v.(Slice)
		eb, ok := u.Elem().Underlying().(*types.Basic)
		if !ok {
			return nil, false
		}
		switch eb.Kind() {
		case types.String:
			out := make([]string, s.len)
			for i := range out {
				e := s.o.slots[s.off+i].(Str)
				if e.Sym != nil {
					return nil, false
				}
				out[i] = e.S
			}
			return out, true
		case types.Int32:
			out := make([]rune, s.len)
			for i := range out {
				e := s.o.slots[s.off+i].(BV)
				if e.T != nil {
					return nil, false
				}
				out[i] = rune(e.sval())
			}
			return out, true
		case types.Uint8:
			out := make([]byte, s.len)
			for i := range out {
				e := s.o.slots[s.off+i].(BV)
				if e.T != nil {
					return nil, false
				}
				out[i] = byte(e.C)
			}
			return out, true
		case types.Int:
			out := make([]int, s.len)
			for i := range out {
				e := s.o.slots[s.off+i].(BV)
				if e.T != nil {
					return nil, false
				}
				out[i] = int(e.sval())
			}
			return out, true
		}
	}
	return nil, false
}

func (m *Machine) fromNative(rv reflect.Value, t types.Type) Value {
	switch u := t.Underlying().(type) {
	case *types.Basic:
		switch {
		case u.Info()&types.IsString != 0:
			return Str{S: rv.String()}
		case u.Info()&types.IsBoolean != 0:
			return BoolV{C: rv.Bool()}
		case u.Info()&types.IsInteger != 0:
			w, s := intWidth(u)
			if s {
				return mkInt(w, uint64(rv.Int()))
			}
			return mkInt(w, rv.Uint())
		case u.Info()&types.IsFloat != 0:
			return F64(rv.Float())
		}
	case *types.Slice:
		if rv.IsNil() {
			return Slice{es: m.sizeOf(u.Elem())}
		}
		n := rv.Len()
		sl := m.makeSlice(u.Elem(), n, n)
		if sl.es != 1 && n > 0 {
			panic("fromNative: aggregate slice elements")
		}
		for i := 0; i < n; i++ {
			sl.o.slots[i] = m.fromNative(rv.Index(i), u.Elem())
		}
		return sl
	case *types.Interface:
		if rv.IsNil() {
			return Iface{}
		}
		if err, ok := rv.Interface().(error); ok {
			return m.newError(Str{S: err.Error()})
		}
	case *types.Pointer:
		if rv.IsNil() {
			return Ptr{}
		}
		o := m.newObj(0, "native "+rv.Type().String())
		o.nat = rv.Interface()
		return Ptr{o, 0}
	}
	panic(fmt.Sprintf("fromNative: %v -> %v", rv.Type(), t))
}

// nativeBridge calls the real function when every argument is concrete; otherwise the SSA
// body is interpreted (handled=false).
func nativeBridge(nat any) intrinsicFn {
	rf := reflect.ValueOf(nat)
	rt := rf.Type()
	return func(m *Machine, _ *frame, fn *ssa.Function, args []Value) (Value, bool) {
		n := rt.NumIn()
		if len(args) != n {
			return nil, false
		}
		in := make([]reflect.Value, n)
		for i := 0; i < n; i++ {
			v, ok := m.toNative(args[i], rt.In(i))
			if !ok {
				return nil, false
			}
			in[i] = v
		}
		var out []reflect.Value
		if rt.IsVariadic() {
			out = rf.CallSlice(in)
		} else {
			out = rf.Call(in)
		}
		res := fn.Signature.Results()
		switch len(out) {
		case 0:
			return nil, true
		case 1:
			return m.fromNative(out[0], res.At(0).Type()), true
		}
		tup := make(Tuple, len(out))
		for i := range out {
			tup[i] = m.fromNative(out[i], res.At(i).Type())
		}
		return tup, true
	}
}

var natives = map[string]any{
	"strings.Contains":               strings.Contains,
	"strings.ContainsAny":            strings.ContainsAny,
	"strings.ContainsRune":           strings.ContainsRune,
	"strings.Count":                  strings.Count,
	"strings.HasPrefix":              strings.HasPrefix,
	"strings.HasSuffix":              strings.HasSuffix,
	"strings.Index":                  strings.Index,
	"strings.IndexByte":              strings.IndexByte,
	"strings.IndexRune":              strings.IndexRune,
	"strings.IndexAny":               strings.IndexAny,
	"strings.LastIndex":              strings.LastIndex,
	"strings.Join":                   strings.Join,
	"strings.Repeat":                 strings.Repeat,
	"strings.ReplaceAll":             strings.ReplaceAll,
	"strings.Replace":                strings.Replace,
	"strings.Split":                  strings.Split,
	"strings.SplitN":                 strings.SplitN,
	"strings.Fields":                 strings.Fields,
	"strings.ToLower":                strings.ToLower,
	"strings.ToUpper":                strings.ToUpper,
	"strings.Trim":                   strings.Trim,
	"strings.TrimLeft":               strings.TrimLeft,
	"strings.TrimRight":              strings.TrimRight,
	"strings.TrimPrefix":             strings.TrimPrefix,
	"strings.TrimSuffix":             strings.TrimSuffix,
	"strings.TrimSpace":              strings.TrimSpace,
	"strings.EqualFold":              strings.EqualFold,
	"strings.Title":                  strings.Title,
	"strconv.Atoi":                   strconv.Atoi,
	"strconv.Itoa":                   strconv.Itoa,
	"strconv.ParseInt":               strconv.ParseInt,
	"strconv.Unquote":                strconv.Unquote,
	"strconv.Quote":                  strconv.Quote,
	"strconv.FormatInt":              strconv.FormatInt,
	"regexp.QuoteMeta":               regexp.QuoteMeta,
	"regexp.MatchString":             regexp.MatchString,
	"path/filepath.Join":             filepath.Join,
	"path/filepath.Base":             filepath.Base,
	"path/filepath.Dir":              filepath.Dir,
	"math.Ceil":                      math.Ceil,
	"math.Floor":                     math.Floor,
	"unicode/utf8.RuneCountInString": utf8.RuneCountInString,
	"unicode/utf8.RuneLen":           utf8.RuneLen,
	"unicode/utf8.ValidString":       utf8.ValidString,
	"unicode/utf8.ValidRune":         utf8.ValidRune,
	"encoding/hex.EncodeToString":    nil,
}

func init() {
	delete(natives, "encoding/hex.EncodeToString")
}

var intrinsics map[string]intrinsicFn

func init() {
	intrinsics = map[string]intrinsicFn{}
	reg := func(name string, f intrinsicFn) { intrinsics[name] = f }
	noop := func(m *Machine, _ *frame, fn *ssa.Function, _ []Value) (Value, bool) {
		return m.zeroResults(fn), true
	}

	// ---- harness API ------------------------------------------------------
	// GOSX_FIX=name=value,... pins harness symbols to constants (debugging aid: a concrete run
	// of one replay vector inside the engine, to compare with its native replay)
	fixVals := map[string]uint64{}
	for _, kv := range strings.Split(os.Getenv("GOSX_FIX"), ",") {
		if i := strings.Index(kv, "="); i > 0 {
			v, _ := strconv.ParseUint(kv[i+1:], 10, 64)
			fixVals[kv[:i]] = v
		}
	}
	nondet := func(w uint16) intrinsicFn {
		return func(m *Machine, _ *frame, _ *ssa.Function, args []Value) (Value, bool) {
			name := m.strConcrete(args[0].(Str))
			if v, ok := fixVals[name]; ok {
				return mkInt(uint8(w), v), true
			}
			return m.fromTerm(m.fresh(name, w)), true
		}
	}
	reg(zzPath+".Byte", nondet(8))
	reg(zzPath+".Rune", nondet(32))
	reg(zzPath+".Int", nondet(64))
	reg(zzPath+".Uint32", nondet(32))
	reg(zzPath+".Bool", func(m *Machine, _ *frame, _ *ssa.Function, args []Value) (Value, bool) {
		if v, ok := fixVals[m.strConcrete(args[0].(Str))]; ok {
			return BoolV{C: v != 0}, true
		}
		return m.fromTerm(m.fresh(m.strConcrete(args[0].(Str)), 0)), true
	})
	reg(zzPath+".Assume", func(m *Machine, _ *frame, _ *ssa.Function, args []Value) (Value, bool) {
		m.assume(args[0].(BoolV))
		return nil, true
	})
	reg(zzPath+".Assert", func(m *Machine, _ *frame, _ *ssa.Function, args []Value) (Value, bool) {
		m.assert(args[0].(BoolV), m.strConcrete(args[1].(Str)))
		return nil, true
	})
	reg(zzPath+".Reach", func(m *Machine, _ *frame, _ *ssa.Function, args []Value) (Value, bool) {
		m.path.reaches[args[0].(Str).S] = true
		return nil, true
	})
	reg(zzPath+".Block", func(m *Machine, _ *frame, _ *ssa.Function, args []Value) (Value, bool) {
		panic(pathEnd{kind: "blocked"})
	})
	reg(zzPath+".Spin", func(m *Machine, _ *frame, _ *ssa.Function, args []Value) (Value, bool) {
		panic(pathEnd{kind: "spin", msg: m.strConcrete(args[0].(Str)) + "\n" + m.where(m.cur)})
	})
	reg(zzPath+".Symbolic", func(m *Machine, _ *frame, _ *ssa.Function, args []Value) (Value, bool) {
		return BoolV{C: true}, true
	})
	reg(zzPath+".Param", func(m *Machine, _ *frame, _ *ssa.Function, args []Value) (Value, bool) {
		return Str{S: m.job.Params[args[0].(Str).S]}, true
	})
	reg(zzPath+".ParamInt", func(m *Machine, _ *frame, _ *ssa.Function, args []Value) (Value, bool) {
		n, _ := strconv.Atoi(m.job.Params[args[0].(Str).S])
		return mkInt(64, uint64(int64(n))), true
	})
	reg(zzPath+".Note", func(m *Machine, _ *frame, _ *ssa.Function, args []Value) (Value, bool) {
		k := m.strConcrete(args[0].(Str))
		if s, ok := args[1].(Str); ok {
			if m.path.modelOK {
				m.path.notes[k] = m.strConcrete(s)
			}
		}
		return nil, true
	})
	reg(zzPath+".Choose", func(m *Machine, _ *frame, _ *ssa.Function, args []Value) (Value, bool) {
		n := int(args[1].(BV).C)
		return mkInt(64, uint64(m.choose(n, "choose"))), true
	})
	reg(zzPath+".Concretize", func(m *Machine, _ *frame, _ *ssa.Function, args []Value) (Value, bool) {
		b := args[0].(BV)
		return mkInt(b.W, m.concretize(b, "harness")), true
	})
	reg(zzPath+".CaseFixed", func(m *Machine, _ *frame, _ *ssa.Function, args []Value) (Value, bool) {
		r := args[0].(BV)
		if r.T == nil {
			return BoolV{C: evalPred("ToLowerFixed", r.C) && evalPred("ToUpperFixed", r.C)}, true
		}
		return m.fromTerm(m.tc.And(m.tc.Pred("ToLowerFixed", r.T), m.tc.Pred("ToUpperFixed", r.T))), true
	})
	reg(zzPath+".IsPrint", func(m *Machine, _ *frame, _ *ssa.Function, args []Value) (Value, bool) {
		return m.runePred("IsPrint", args[0].(BV)), true
	})

	// ---- sync / runtime ---------------------------------------------------
	for _, n := range []string{
		"(*sync.Mutex).Lock", "(*sync.Mutex).Unlock", "(*sync.RWMutex).Lock", "(*sync.RWMutex).Unlock",
		"(*sync.RWMutex).RLock", "(*sync.RWMutex).RUnlock", "(*sync.Mutex).TryLock",
		"os/signal.Notify", "os/signal.Stop", "runtime.GC", "runtime.Gosched", "runtime.KeepAlive",
		"(*sync.WaitGroup).Add", "(*sync.WaitGroup).Done", "(*sync.WaitGroup).Wait",
		"runtime.SetFinalizer", "internal/race.Acquire", "internal/race.Release", "internal/race.ReleaseMerge",
		"internal/race.Disable", "internal/race.Enable", "internal/race.Read", "internal/race.Write",
		"internal/race.ReadRange", "internal/race.WriteRange",
	} {
		reg(n, noop)
	}
	reg("(*sync.Once).Do", func(m *Machine, caller *frame, _ *ssa.Function, args []Value) (Value, bool) {
		p := args[0].(Ptr)
		if d := p.o.slots[p.off].(BV); d.C == 0 {
			m.storeSlot(p.o, p.off, mkInt(d.W, 1))
			m.call(caller, args[1], nil, 0)
		}
		return nil, true
	})
	reg("(*sync.Pool).Get", func(m *Machine, caller *frame, fn *ssa.Function, args []Value) (Value, bool) {
		// Pool{noCopy; local; localSize; victim; victimSize; New}
		p := args[0].(Ptr)
		pt := m.namedType("sync", "Pool")
		l := m.layoutOf(pt)
		newf, _ := p.o.slots[p.off+l.fields[len(l.fields)-1]].(*Closure)
		if newf == nil {
			return Iface{}, true
		}
		return m.call(caller, newf, nil, 0), true
	})
	reg("(*sync.Pool).Put", noop)
	reg("internal/abi.NoEscape", func(m *Machine, _ *frame, _ *ssa.Function, args []Value) (Value, bool) {
		return args[0], true
	})
	reg("internal/stringslite.Clone", func(m *Machine, _ *frame, _ *ssa.Function, args []Value) (Value, bool) {
		return args[0], true
	})
	reg("strings.Clone", func(m *Machine, _ *frame, _ *ssa.Function, args []Value) (Value, bool) {
		return args[0], true
	})
	reg("internal/bytealg.MakeNoZero", func(m *Machine, _ *frame, _ *ssa.Function, args []Value) (Value, bool) {
		n := int(m.concreteInt(args[0].(BV), "MakeNoZero"))
		return m.makeSlice(types.Typ[types.Uint8], n, roundCap(n, 1)), true
	})
	reg("time.Now", func(m *Machine, _ *frame, fn *ssa.Function, _ []Value) (Value, bool) {
		return m.zeroResults(fn), true
	})
	reg("(time.Time).Nanosecond", func(m *Machine, _ *frame, fn *ssa.Function, _ []Value) (Value, bool) {
		return mkInt(64, 0), true
	})
	reg("os.Getpid", func(m *Machine, _ *frame, fn *ssa.Function, _ []Value) (Value, bool) {
		return mkInt(64, 4242), true
	})
	reg("(syscall.Signal).String", func(m *Machine, _ *frame, fn *ssa.Function, args []Value) (Value, bool) {
		if args[0].(BV).C == 2 {
			return Str{S: "interrupt"}, true
		}
		return Str{S: "signal " + fmt.Sprint(args[0].(BV).C)}, true
	})

	registerStringIntrinsics(reg)
	registerFmtIntrinsics(reg)
	registerEnvIntrinsics(reg)
	registerRegexpIntrinsics(reg)
	registerSortIntrinsics(reg)
}

var _ = os.Stderr
