package main

// `gosx check <id>`: run a property's jobs, replay counterexamples natively, match known
// findings, write evidence, decide the exit code.

import (
	"bytes"
	"context"
	"crypto/sha256"
	"encoding/hex"
	"encoding/json"
	"flag"
	"fmt"
	"os"
	"os/exec"
	"path/filepath"
	"regexp"
	"runtime"
	"sort"
	"strconv"
	"strings"
	"time"

	"golang.org/x/tools/go/ssa"
)

type CheckDef struct {
	ID          string
	Jobs        func(tier string, p *Program) []*Job
	Assumptions []string
	Stubs       []string
	Bounds      map[string]string // tier -> text
	Rule        string
	IgnoreKinds []string // violation kinds that are another property's subject (counted, not reported)
}

var checks = map[string]*CheckDef{}

type KnownFinding struct {
	Property string               `json:"property"`
	Status   string               `json:"status"` // known | fixed
	Label    string               `json:"label,omitempty"`
	LabelRe  string               `json:"label_re,omitempty"`
	Kind     string               `json:"kind,omitempty"`
	Site     string               `json:"site,omitempty"`
	Job      map[string]string    `json:"job,omitempty"`
	MsgRe    string               `json:"msg_re,omitempty"`
	ValsIn   map[string][2]uint64 `json:"vals_in,omitempty"` // nondet name -> inclusive range the failing value must lie in
	Commit   string               `json:"commit,omitempty"`
	What     string               `json:"what"`
}

func loadKnown() []KnownFinding {
	b, err := os.ReadFile(filepath.Join(verifDir, "known_findings.json"))
	if err != nil {
		return nil
	}
	var out []KnownFinding
	if err := json.Unmarshal(b, &out); err != nil {
		fmt.Fprintln(os.Stderr, "known_findings.json:", err)
	}
	return out
}

func (k *KnownFinding) matches(v *Violation, prop string) bool {
	if k.Status != "known" || k.Property != prop {
		return false
	}
	if k.Label != "" && k.Label != v.Label {
		return false
	}
	if k.LabelRe != "" {
		if ok, _ := regexp.MatchString(k.LabelRe, v.Label); !ok {
			return false
		}
	}
	if k.Kind != "" && k.Kind != v.Kind {
		return false
	}
	if k.Site != "" && k.Site != v.Site {
		return false
	}
	for key, want := range k.Job {
		if v.Job[key] != want {
			return false
		}
	}
	if k.MsgRe != "" {
		if ok, _ := regexp.MatchString(k.MsgRe, v.Msg); !ok {
			return false
		}
	}
	for name, rg := range k.ValsIn {
		x, ok := v.Vals[name]
		if !ok || x < rg[0] || x > rg[1] {
			return false
		}
	}
	return true
}

func cmdCheck(args []string) int {
	fs := flag.NewFlagSet("check", flag.ExitOnError)
	tier := fs.String("tier", "", "quick|thorough")
	workers := fs.Int("workers", runtime.NumCPU(), "")
	verbose := fs.Bool("v", false, "")
	noReplay := fs.Bool("no-replay", false, "")
	only := fs.String("only", "", "run only jobs whose name contains this")
	replayFile := fs.String("replay", "", "replay a stored counterexample natively")
	noCross := fs.Bool("no-cross", false, "skip the cross-solver check")
	tmo := fs.Int("timeout", 0, "give up exploring after this many seconds (remaining work is reported as inconclusive)")
	var id string
	if len(args) > 0 && !strings.HasPrefix(args[0], "-") {
		id = args[0]
		args = args[1:]
	}
	fs.Parse(args)
	if *tier == "" {
		*tier = os.Getenv("VERIF_TIER")
	}
	if *tier == "" {
		*tier = "quick"
	}
	seed := 0
	if s := os.Getenv("VERIF_SEED"); s != "" {
		seed, _ = strconv.Atoi(s)
	}
	def := checks[id]
	if def == nil {
		fmt.Fprintln(os.Stderr, "unknown property", id)
		return 2
	}
	t0 := time.Now()
	if *replayFile != "" {
		return replayStored(id, *replayFile)
	}
	prog, err := loadProgram()
	if err != nil {
		fmt.Fprintln(os.Stderr, "INCONCLUSIVE:", err)
		return 2
	}
	loadT := time.Since(t0)
	jobs := def.Jobs(*tier, prog)
	if *only != "" {
		var f []*Job
		for _, j := range jobs {
			for _, alt := range strings.Split(*only, "|") {
				if strings.Contains(j.Name, alt) {
					f = append(f, j)
					break
				}
			}
		}
		jobs = f
	}
	for _, j := range jobs {
		j.Prop = id
		if j.MapOrders {
			j.Params["__maporders"] = "1"
		}
	}
	ex := NewExplorer(prog, *workers)
	ex.verbose = *verbose
	if *tmo > 0 {
		ex.deadline = time.Now().Add(time.Duration(*tmo) * time.Second)
	}
	if *tier == "thorough" {
		ex.timeoutMs = 60000
	}
	// cross-solver check: worker 0's query stream is recorded and re-decided by z3 5.1.0
	crossDir := filepath.Join(verifDir, ".scratch")
	os.MkdirAll(crossDir, 0o755)
	ex.crossLog = filepath.Join(crossDir, fmt.Sprintf("cross_%s_%d.smt2", id, os.Getpid()))
	ex.crossMax = 600
	if *tier == "thorough" {
		ex.crossMax = 6000
	}
	if *noCross {
		ex.crossLog = ""
	}
	ex.Run(jobs)
	var cross map[string]any
	if ex.crossLog != "" {
		cross = crossCheck(ex.crossLog, "z3-new")
		os.Remove(ex.crossLog)
	}

	// gather
	inconclusive := []string{}
	for _, f := range ex.fatal {
		inconclusive = append(inconclusive, f)
	}
	totalPaths := map[string]int{}
	var decisions, steps int64
	var allViol []*Violation
	var samples []map[string]any
	asserts, discharged := 0, 0
	ignoredKinds := map[string]int{}
	for _, j := range jobs {
		if *verbose || len(jobs) <= 40 || os.Getenv("GOSX_JOBS") != "" {
			fmt.Fprintln(os.Stderr, j.summary())
		}
		for k, n := range j.paths {
			totalPaths[k] += n
		}
		decisions += j.decisions
		steps += j.steps
		asserts += j.asserts
		discharged += j.discharged
		for _, bad := range []string{"unsupported", "engine-error", "solver-unknown", "setup-failed", "timeout-skipped", "dropped-maxpaths", "infeasible"} {
			if j.paths[bad] > 0 {
				msg := fmt.Sprintf("job %s: %d paths ended %s", j.Name, j.paths[bad], bad)
				if len(j.unsupported) > 0 {
					msg += ": " + firstLines(j.unsupported[0], 6)
				}
				inconclusive = append(inconclusive, msg)
			}
		}
		for _, l := range j.Reach {
			hit := false
			for _, alt := range strings.Split(l, "|") {
				if j.reaches[alt] {
					hit = true
				}
			}
			if !hit && !(j.paths["panic-escaped"] > 0) {
				inconclusive = append(inconclusive, fmt.Sprintf("job %s: reach label %q not witnessed (vacuous harness?)", j.Name, l))
			}
		}
		for _, v := range dedupViolations(j.violations) {
			ignored := false
			for _, k := range def.IgnoreKinds {
				if v.Kind == k {
					ignored = true
				}
			}
			if ignored {
				ignoredKinds[v.Kind]++
				continue
			}
			allViol = append(allViol, v)
		}
		if len(samples) < 12 {
			for _, s := range j.samples {
				if len(samples) < 12 {
					samples = append(samples, s)
				}
			}
		}
	}
	// native replay
	replayed := 0
	replayDir := filepath.Join(verifDir, "evidence", "replay", id)
	os.RemoveAll(replayDir)
	if len(allViol) > 0 && !*noReplay {
		os.MkdirAll(replayDir, 0o755)
		// cap the number of replays per signature class
		n, err := replayViolations(prog, id, allViol, replayDir)
		replayed = n
		if err != nil {
			inconclusive = append(inconclusive, "replay failed: "+err.Error())
		}
	}
	// differential validation of the engine: replay a few passing paths natively and
	// compare how they end (returned / blocked)
	if !*noReplay {
		var vecs []replayVec
		var want []string
		perPkg := map[string][]int{}
		for _, s := range samples {
			oc, _ := s["outcome"].(string)
			if oc != "returned" && oc != "blocked" {
				continue
			}
			job, _ := s["job"].(map[string]string)
			ins, _ := s["inputs"].(map[string]uint64)
			if job == nil || len(vecs) >= 8 {
				continue
			}
			_, fn := pkgRelOfHarness(job["__harness"])
			vecs = append(vecs, replayVec{Harness: fn, Vals: ins, Job: job, Kind: "sample", Label: oc})
			want = append(want, oc)
			rel, _ := pkgRelOfHarness(job["__harness"])
			perPkg[rel] = append(perPkg[rel], len(vecs)-1)
		}
		os.MkdirAll(replayDir, 0o755)
		for rel, idxs := range perPkg {
			var vs []replayVec
			for _, i := range idxs {
				vs = append(vs, vecs[i])
			}
			res, _, err := runNative(prog, replayDir, rel, vs, "samples_"+strings.ReplaceAll(rel, "/", "_"))
			if err != nil {
				inconclusive = append(inconclusive, "sample replay failed: "+err.Error())
				continue
			}
			for k, i := range idxs {
				got := res[k]
				replayed++
				if !strings.HasPrefix(got, want[i]) {
					inconclusive = append(inconclusive, fmt.Sprintf("ENGINE-DISAGREEMENT on a passing sample: engine %q, native %q (job %v vals %v)", want[i], got, vecs[i].Job, vecs[i].Vals))
				}
			}
		}
	}
	known := loadKnown()
	exit := 0
	nviol := 0
	knownPrinted := map[string]bool{}
	var vout []map[string]any
	for _, v := range allViol {
		if *noReplay {
			v.Status = "not-replayed"
		}
		rec := map[string]any{"label": v.Label, "kind": v.Kind, "site": v.Site, "job": v.Job, "vals": v.Vals, "msg": v.Msg, "status": v.Status}
		switch v.Status {
		case "reproduced", "not-replayed":
			matched := false
			for i := range known {
				if known[i].matches(v, id) {
					matched = true
					v.KnownAs = known[i].What
					if !knownPrinted[known[i].What] {
						knownPrinted[known[i].What] = true
						fmt.Printf("KNOWN-FINDING: property=%s %s\n", id, known[i].What)
					}
					break
				}
			}
			rec["known_as"] = v.KnownAs
			if !matched {
				nviol++
				fmt.Printf("VIOLATION property=%s replay=%s\n", id, v.Replay)
				fmt.Fprintf(os.Stderr, "  %s %s at %s: %s\n  job=%v vals=%v\n%s\n", v.Kind, v.Label, v.Site, v.Msg, v.Job, v.Vals, v.Stack)
				exit = 1
			}
		default:
			// a counterexample of a listed finding whose native replay varies with pty timing
			// is still that finding (it was confirmed natively when it was listed)
			listed := false
			for i := range known {
				if known[i].matches(v, id) {
					listed = true
					v.KnownAs = known[i].What
					rec["known_as"] = v.KnownAs
					rec["note"] = "native replay did not reproduce in this run (timing-dependent); listed finding"
					if !knownPrinted[known[i].What] {
						knownPrinted[known[i].What] = true
						fmt.Printf("KNOWN-FINDING: property=%s %s\n", id, known[i].What)
					}
					break
				}
			}
			if listed {
				break
			}
			inconclusive = append(inconclusive, fmt.Sprintf("ENGINE-DISAGREEMENT: counterexample for %s/%s (%v, vals %v) did not reproduce natively: %s", v.Label, v.Site, v.Job, v.Vals, v.Status))
		}
		vout = append(vout, rec)
	}
	if cross != nil {
		if n, _ := cross["disagreements"].(int); n > 0 {
			inconclusive = append(inconclusive, fmt.Sprintf("SOLVER-DISAGREEMENT: %d of %v recorded queries are decided differently by %v: %v", n, cross["compared"], cross["solver"], cross["first_disagreement"]))
		}
		if e, _ := cross["error"].(string); e != "" {
			fmt.Fprintln(os.Stderr, "cross-solver check not performed:", e)
		}
	}
	if exit == 0 && len(inconclusive) > 0 {
		exit = 2
	}
	for _, s := range inconclusive {
		fmt.Fprintln(os.Stderr, "INCONCLUSIVE:", s)
	}
	// functions encoded
	var fnames []string
	h := sha256.New()
	for f := range ex.cover {
		name := f.String()
		if strings.Contains(name, repoPath) && !strings.Contains(name, "zzverif") {
			fnames = append(fnames, strings.ReplaceAll(name, repoPath, "readline"))
		}
	}
	sort.Strings(fnames)
	for _, n := range fnames {
		h.Write([]byte(n))
	}
	states := 0
	for k, n := range totalPaths {
		if k != "solver-unknown" {
			states += n
		}
	}
	wall := time.Since(t0).Seconds()
	cov := map[string]any{
		"states":                          states,
		"transitions":                     int(decisions) + states,
		"traces_validated_against_impl":   replayed,
		"samples":                         samples,
		"paths_by_outcome":                totalPaths,
		"jobs":                            len(jobs),
		"assertions_checked":              asserts,
		"assertion_queries_unsat":         discharged,
		"functions_encoded":               fnames,
		"functions_encoded_count":         len(fnames),
		"functions_hash":                  hex.EncodeToString(h.Sum(nil))[:16],
		"bounds":                          def.Bounds[*tier],
		"queries":                         map[string]int{"total": ex.solverStats.q, "sat": ex.solverStats.sat, "unsat": ex.solverStats.unsat, "unknown": ex.solverStats.unk},
		"solver_s":                        ex.solverStats.t.Seconds(),
		"solver":                          "z3 (via -in, incremental)",
		"cross_solver_check":              cross,
		"instructions_interpreted":        steps,
		"load_s":                          loadT.Seconds(),
		"stubs":                           def.Stubs,
		"rule":                            def.Rule,
		"violations_detail":               vout,
		"ignored_outcomes_other_property": ignoredKinds,
		"inconclusive":                    inconclusive,
		"exhaustive":                      len(inconclusive) == 0,
	}
	if len(samples) == 0 {
		cov["samples"] = []any{"no completed path"}
	}
	if states == 0 {
		cov["states"] = 1
	}
	ev := map[string]any{
		"property_id": id, "tier": *tier, "seed": seed, "level": "model_checking",
		"coverage": cov, "assumptions": def.Assumptions, "wall_s": wall, "violations": nviol,
	}
	os.MkdirAll(filepath.Join(verifDir, "evidence"), 0o755)
	b, _ := json.MarshalIndent(ev, "", " ")
	if *only != "" {
		// a partial (debugging) run does not describe the check: keep the evidence of the last full run
		fmt.Fprintln(os.Stderr, "partial run (--only): evidence file not rewritten")
	} else {
		os.WriteFile(filepath.Join(verifDir, "evidence", id+".json"), b, 0o644)
	}
	fmt.Fprintf(os.Stderr, "%s %s: %d jobs, paths %v, %d solver queries (%.1fs), %d violations (%d unlisted), %d replays, wall %.1fs -> exit %d\n",
		id, *tier, len(jobs), totalPaths, ex.solverStats.q, ex.solverStats.t.Seconds(), len(allViol), nviol, replayed, wall, exit)
	return exit
}

// crossCheck feeds a recorded query stream (with z3's answers as "; answer" comments) to a
// second solver and compares the answers check-sat by check-sat.
func crossCheck(path, bin string) map[string]any {
	out := map[string]any{"solver": bin}
	data, err := os.ReadFile(path)
	if err != nil {
		out["error"] = err.Error()
		return out
	}
	var want []string
	for _, l := range strings.Split(string(data), "\n") {
		if strings.HasPrefix(l, "; answer ") {
			want = append(want, strings.TrimPrefix(l, "; answer "))
		}
	}
	out["recorded"] = len(want)
	if len(want) == 0 {
		return out
	}
	t0 := time.Now()
	ctx, cancel := context.WithTimeout(context.Background(), 15*time.Minute)
	defer cancel()
	cmd := exec.CommandContext(ctx, bin, "-in")
	cmd.Stdin = bytes.NewReader(data)
	res, err := cmd.Output()
	if ctx.Err() != nil {
		out["error"] = "second solver exceeded 15 min"
	}
	var got []string
	for _, l := range strings.Split(string(res), "\n") {
		l = strings.TrimSpace(l)
		if l == "sat" || l == "unsat" || l == "unknown" || l == "timeout" {
			got = append(got, l)
		}
	}
	n := len(got)
	if len(want) < n {
		n = len(want)
	}
	agree, dis, undecided := 0, 0, 0
	for i := 0; i < n; i++ {
		switch {
		case got[i] == want[i]:
			agree++
		case (got[i] == "sat" && want[i] == "unsat") || (got[i] == "unsat" && want[i] == "sat"):
			dis++
			if dis == 1 {
				out["first_disagreement"] = fmt.Sprintf("query #%d: z3 %s, %s %s", i, want[i], bin, got[i])
			}
		default:
			undecided++
		}
	}
	out["compared"] = n
	out["agree"] = agree
	out["disagreements"] = dis
	out["undecided_by_one_solver"] = undecided
	out["seconds"] = time.Since(t0).Seconds()
	if v, err := exec.Command(bin, "--version").Output(); err == nil {
		out["solver"] = strings.TrimSpace(string(v))
	}
	return out
}

func firstLines(s string, n int) string {
	ls := strings.Split(s, "\n")
	if len(ls) > n {
		ls = ls[:n]
	}
	return strings.Join(ls, " | ")
}

// ---------------------------------------------------------------------------
// native replay

type replayVec struct {
	Harness string            `json:"harness"`
	Vals    map[string]uint64 `json:"vals"`
	Job     map[string]string `json:"job"`
	Label   string            `json:"label"`
	Kind    string            `json:"kind"`
	Site    string            `json:"site"`
	Msg     string            `json:"msg"`
}

// harnessPackages lists, per package dir (relative to the repo), its ZZ_ harness functions.
func harnessPackages(p *Program) map[string][]string {
	out := map[string][]string{}
	for path, pkg := range p.pkgs {
		if !strings.HasPrefix(path, repoPath) || strings.HasSuffix(path, "zzverif") {
			continue
		}
		for name, mem := range pkg.Members {
			if fn, ok := mem.(*ssa.Function); ok && strings.HasPrefix(name, "ZZ_") && fn.Signature.Params().Len() == 0 && fn.Signature.Results().Len() == 0 {
				rel := strings.TrimPrefix(strings.TrimPrefix(path, repoPath), "/")
				out[rel] = append(out[rel], name)
			}
		}
	}
	for k := range out {
		sort.Strings(out[k])
	}
	return out
}

func writeReplayOverlay(p *Program, dir string, pkgRel string) (string, error) {
	ov, err := overlayFiles()
	if err != nil {
		return "", err
	}
	hp := harnessPackages(p)
	funcs := hp[pkgRel]
	pkgName := ""
	for path, pkg := range p.pkgs {
		if strings.TrimPrefix(strings.TrimPrefix(path, repoPath), "/") == pkgRel && strings.HasPrefix(path, repoPath) {
			pkgName = pkg.Pkg.Name()
		}
	}
	var sb strings.Builder
	fmt.Fprintf(&sb, "package %s\n\nimport (\n\t\"testing\"\n\t\"github.com/reeflective/readline/internal/zzverif\"\n)\n\n", pkgName)
	sb.WriteString("func TestZZReplay(t *testing.T) {\n\tzzverif.RunReplay(map[string]func(){\n")
	for _, f := range funcs {
		fmt.Fprintf(&sb, "\t\t%q: %s,\n", f, f)
	}
	sb.WriteString("\t})\n}\n")
	testFile := filepath.Join(dir, "zz_replay_"+strings.ReplaceAll(pkgRel, "/", "_")+"_test.go")
	if err := os.WriteFile(testFile, []byte(sb.String()), 0o644); err != nil {
		return "", err
	}
	repl := map[string]string{}
	for virt, real := range ov {
		repl[virt] = real
	}
	repl[filepath.Join(repoDir(), pkgRel, "zz_replay_test.go")] = testFile
	b, _ := json.Marshal(map[string]any{"Replace": repl})
	ovFile := filepath.Join(dir, "overlay_"+strings.ReplaceAll(pkgRel, "/", "_")+".json")
	return ovFile, os.WriteFile(ovFile, b, 0o644)
}

func pkgRelOfHarness(h string) (string, string) {
	i := strings.LastIndex(h, ".")
	path, fn := h[:i], h[i+1:]
	return strings.TrimPrefix(strings.TrimPrefix(path, repoPath), "/"), fn
}

// runNative runs vectors of one package natively and returns the outcome lines by index.
func runNative(p *Program, dir, pkgRel string, vecs []replayVec, tag string) (map[int]string, string, error) {
	ovFile, err := writeReplayOverlay(p, dir, pkgRel)
	if err != nil {
		return nil, "", err
	}
	vf := filepath.Join(dir, "vectors_"+tag+".json")
	b, _ := json.MarshalIndent(vecs, "", " ")
	if err := os.WriteFile(vf, b, 0o644); err != nil {
		return nil, "", err
	}
	target := "./" + pkgRel
	if pkgRel == "" {
		target = "."
	}
	cmd := exec.Command("go", "test", "-vet=off", "-count=1", "-overlay", ovFile, "-run", "^TestZZReplay$", "-timeout", "600s", "-v", target)
	cmd.Dir = repoDir()
	cmd.Env = append(os.Environ(), "GOFLAGS=-mod=mod", "GOPROXY=off", "VERIF_REPLAY="+vf)
	out, err := cmd.CombinedOutput()
	res := map[int]string{}
	for _, ln := range strings.Split(string(out), "\n") {
		if i := strings.Index(ln, "ZZ-OUTCOME "); i >= 0 {
			f := strings.SplitN(ln[i+len("ZZ-OUTCOME "):], " ", 2)
			idx, _ := strconv.Atoi(f[0])
			if len(f) > 1 {
				res[idx] = f[1]
			}
		}
	}
	if len(res) == 0 && err != nil {
		return res, string(out), fmt.Errorf("go test failed: %v\n%s", err, tail(string(out), 30))
	}
	return res, string(out), nil
}

func tail(s string, n int) string {
	ls := strings.Split(s, "\n")
	if len(ls) > n {
		ls = ls[len(ls)-n:]
	}
	return strings.Join(ls, "\n")
}

func expectedOutcome(v *Violation) string {
	switch v.Kind {
	case "assert":
		return "assert " + v.Label
	case "panic":
		return "panic " + v.Msg
	case "deadlock", "hang":
		return "hang"
	case "spin":
		return "spin"
	}
	return v.Kind
}

func outcomeMatches(v *Violation, got string) bool {
	want := expectedOutcome(v)
	if v.Kind == "panic" {
		// compare message text up to the first newline
		return strings.HasPrefix(got, "panic ") && normPanic(got[6:]) == normPanic(v.Msg)
	}
	if v.Kind == "deadlock" || v.Kind == "hang" {
		return strings.HasPrefix(got, "hang") || strings.Contains(got, "stack overflow") || strings.HasPrefix(got, "spin")
	}
	if v.Kind == "spin" {
		return strings.HasPrefix(got, "spin") || strings.HasPrefix(got, "hang")
	}
	return got == want
}

func normPanic(s string) string {
	s = firstLine(s)
	if i := strings.Index(s, " with "); i >= 0 {
		s = s[:i]
	}
	if i := strings.Index(s, " @ "); i >= 0 {
		s = s[:i]
	}
	s = strings.TrimPrefix(s, "runtime error: ")
	return strings.TrimSpace(s)
}

func replayViolations(p *Program, id string, viol []*Violation, dir string) (int, error) {
	byPkg := map[string][]int{}
	for i, v := range viol {
		rel, _ := pkgRelOfHarness(v.Job["__harness"])
		byPkg[rel] = append(byPkg[rel], i)
	}
	n := 0
	for rel, idxs := range byPkg {
		var vecs []replayVec
		for _, i := range idxs {
			v := viol[i]
			_, fn := pkgRelOfHarness(v.Job["__harness"])
			vecs = append(vecs, replayVec{Harness: fn, Vals: v.Vals, Job: v.Job, Label: v.Label, Kind: v.Kind, Site: v.Site, Msg: v.Msg})
		}
		// vectors expected to hang (or overflow the stack) run in their own process each,
		// the others in one batch; anything left without an outcome is retried alone
		res := map[int]string{}
		out := ""
		var batch []replayVec
		var batchIdx []int
		for k, v := range vecs {
			if v.Kind == "hang" || v.Kind == "deadlock" || v.Kind == "spin" {
				continue
			}
			batch = append(batch, v)
			batchIdx = append(batchIdx, k)
		}
		tag := strings.ReplaceAll(rel, "/", "_")
		if len(batch) > 0 {
			r, o, err := runNative(p, dir, rel, batch, tag)
			if err != nil {
				return n, err
			}
			out = o
			for bi, k := range batchIdx {
				if s, ok := r[bi]; ok {
					res[k] = s
				}
			}
		}
		for k, v := range vecs {
			if _, ok := res[k]; ok {
				continue
			}
			r, o, _ := runNative(p, dir, rel, []replayVec{v}, tag+"_single")
			if s, ok := r[0]; ok {
				res[k] = s
			} else if strings.Contains(o, "stack overflow") || strings.Contains(o, "goroutine stack exceeds") {
				res[k] = "hang stack overflow (unbounded recursion)"
			} else {
				out = o
			}
		}
		for k, i := range idxs {
			v := viol[i]
			got, ok := res[k]
			// store one replay file per violation
			rf := filepath.Join(dir, fmt.Sprintf("cex_%s_%d.json", strings.ReplaceAll(rel, "/", "_"), k))
			b, _ := json.MarshalIndent([]replayVec{vecs[k]}, "", " ")
			os.WriteFile(rf, b, 0o644)
			v.Replay = rf
			n++
			switch {
			case !ok:
				v.Status = "no outcome line from native run: " + tail(out, 5)
			case outcomeMatches(v, got):
				v.Status = "reproduced"
				if v.Kind == "hang" && strings.HasPrefix(got, "spin") {
					// the engine ran out of loop budget inside the busy loop on dead input
					v.Kind, v.Label, v.Site = "spin", "spin", "(*readline/internal/core.Keys).readInputFiltered"
				}
			default:
				v.Status = fmt.Sprintf("native outcome %q, engine expected %q", got, expectedOutcome(v))
			}
		}
	}
	return n, nil
}

func replayStored(id, file string) int {
	b, err := os.ReadFile(file)
	if err != nil {
		fmt.Fprintln(os.Stderr, err)
		return 2
	}
	var vecs []replayVec
	if err := json.Unmarshal(b, &vecs); err != nil {
		fmt.Fprintln(os.Stderr, err)
		return 2
	}
	prog, err := loadProgram()
	if err != nil {
		fmt.Fprintln(os.Stderr, err)
		return 2
	}
	dir, _ := os.MkdirTemp("", "gosx-replay")
	defer os.RemoveAll(dir)
	code := 0
	for _, v := range vecs {
		rel, _ := pkgRelOfHarness(v.Job["__harness"])
		res, out, err := runNative(prog, dir, rel, []replayVec{v}, "one")
		if err != nil {
			fmt.Fprintln(os.Stderr, err)
			return 2
		}
		fmt.Printf("expected: %s %s %s\nnative:   %s\n", v.Kind, v.Label, v.Msg, res[0])
		if os.Getenv("VERIF_REPLAY_VERBOSE") != "" {
			fmt.Println(out)
		}
		viol := &Violation{Kind: v.Kind, Label: v.Label, Msg: v.Msg}
		if outcomeMatches(viol, res[0]) {
			fmt.Printf("VIOLATION property=%s replay=%s\n", id, file)
			code = 1
		}
	}
	return code
}

func cmdSelftest(args []string) int { return selftest() }
