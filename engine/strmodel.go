package main

// Models of strings / unicode / utf8 / bytealg functions over symbolic strings. Each model
// is registered as an intrinsic that first defers to the native function when all its
// arguments are concrete (through `natives`), so the model only sees symbolic data.

import (
	"fmt"
	"go/types"
	"os"
	"strings"
	"unicode"
	"unicode/utf8"

	"golang.org/x/tools/go/ssa"
)

var caseMode = func() string {
	if v := os.Getenv("GOSX_CASEMODE"); v != "" {
		return v
	}
	return "A"
}()

// knownASCII reports whether the path condition already implies 0 <= r < 0x80.
func (m *Machine) knownASCII(t *Term) bool {
	v, ok := m.path.quick(m.tc.Cmp(OpUlt, t, m.tc.Const(32, 0x80)))
	return ok && v
}

// knownLatin1 reports whether the path condition already implies 0 <= r < 0x100.
func (m *Machine) knownLatin1(t *Term) bool {
	v, ok := m.path.quick(m.tc.Cmp(OpUlt, t, m.tc.Const(32, 0x100)))
	return ok && v
}

// asciiRanges lists the maximal ranges of 0..lim-1 on which f holds.
func asciiRanges(f func(rune) bool, lim rune) [][2]rune {
	var out [][2]rune
	in := false
	var lo rune
	for r := rune(0); r <= lim; r++ {
		v := r < lim && f(r)
		if v && !in {
			in, lo = true, r
		} else if !v && in {
			in = false
			out = append(out, [2]rune{lo, r - 1})
		}
	}
	return out
}

func (m *Machine) runePred(name string, r BV) BoolV {
	if r.T == nil {
		return BoolV{C: evalPred(name, r.C)}
	}
	t := r.T
	if t.w != 32 {
		t = m.tc.Zext(t, 32)
	}
	if lim := m.smallLimit(t); lim > 0 {
		// small exact formula on ASCII / Latin-1 (no table reasoning for the solver)
		cond := m.tc.ff
		for _, rg := range asciiRanges(predFunc(name), lim) {
			cond = m.tc.Or(cond, m.runeIn(BV{T: t, W: 32}, rg[0], rg[1]))
		}
		return m.fromTerm(cond).(BoolV)
	}
	return m.fromTerm(m.tc.Pred(name, t)).(BoolV)
}

func (m *Machine) smallLimit(t *Term) rune {
	if m.knownASCII(t) {
		return 0x80
	}
	if m.knownLatin1(t) {
		return 0x100
	}
	return 0
}

func (m *Machine) runeFn(name string, r BV) BV {
	if r.T == nil {
		return mkInt(32, evalFn32(name, r.C))
	}
	if !m.knownASCII(r.T) && m.knownLatin1(r.T) {
		// Latin-1: group the 256 values by the distance f moves them
		tc := m.tc
		f := uniFns[name]
		res := r.T
		byDelta := map[int32]bool{}
		for c := rune(0); c < 0x100; c++ {
			if d := int32(f(c)) - int32(c); d != 0 {
				byDelta[d] = true
			}
		}
		for d := range byDelta {
			d := d
			cond := tc.ff
			for _, rg := range asciiRanges(func(c rune) bool { return int32(f(c))-int32(c) == d }, 0x100) {
				cond = tc.Or(cond, m.runeIn(r, rg[0], rg[1]))
			}
			res = tc.Ite(cond, tc.Bin(OpAdd, r.T, tc.Const(32, uint64(uint32(d)))), res)
		}
		return m.fromTerm(res).(BV)
	}
	// runes the path condition already knows to be fixed points of f
	if v, ok := m.path.quick(m.tc.Pred(name+"Fixed", r.T)); ok && v {
		return r
	}
	if m.knownASCII(r.T) {
		tc := m.tc
		f := uniFns[name]
		// ASCII: the only moves are A-Z <-> a-z
		res := r.T
		for _, rg := range [][2]rune{{'A', 'Z'}, {'a', 'z'}} {
			d := int32(f(rg[0])) - int32(rg[0])
			if d != 0 {
				res = tc.Ite(m.runeIn(r, rg[0], rg[1]), tc.Bin(OpAdd, r.T, tc.Const(32, uint64(uint32(d)))), res)
			}
		}
		return m.fromTerm(res).(BV)
	}
	// Outside ASCII: split on "f leaves r unchanged" (a plain range predicate). The common
	// side then carries no case-mapping term at all; only genuinely moved runes keep one.
	if caseMode == "A" {
		return m.fromTerm(m.tc.Fn32(name, r.T)).(BV)
	}
	if m.branch(m.fromTerm(m.tc.Pred(name+"Fixed", r.T)).(BoolV), "case-fixed") {
		return r
	}
	if caseMode == "B" {
		return m.fromTerm(m.tc.Fn32(name, r.T)).(BV)
	}
	// Moved runes: split on the distance moved (a few dozen classes, each a range
	// predicate); the result is then r + delta, so no case-mapping function ever reaches
	// the solver. The class to try next is read off the model (a recorded choice).
	f := uniFns[name]
	for iter := 0; iter < 200; iter++ {
		var d uint64 = 1 << 62
		if m.path.pos >= len(m.path.trace) && m.ensureModel() {
			rv := rune(int32(uint32(m.evalUnder(r.T))))
			d = uint64(int64(int32(f(rv)) - int32(rv)))
		}
		d = m.recordChoice(d)
		if d == 1<<62 {
			break
		}
		delta := int64(d)
		if delta == 0 {
			// the model sits on a fixed rune although "moved" was asserted: refresh it
			m.path.modelOK = false
			continue
		}
		pn := fmt.Sprintf("%s#D:%d", name, delta)
		if m.branch(m.fromTerm(m.tc.Pred(pn, r.T)).(BoolV), "case-delta") {
			return m.fromTerm(m.tc.Bin(OpAdd, r.T, m.tc.Const(32, uint64(uint32(int32(delta)))))).(BV)
		}
	}
	return m.fromTerm(m.tc.Fn32(name, r.T)).(BV)
}

// runeSpans decodes s into runes with their byte offsets.
func (m *Machine) runeSpans(s Str) (rs []BV, offs []int) {
	for i := 0; i < len(s.S); {
		r, n := m.decodeRuneAt(s, i)
		rs = append(rs, r)
		offs = append(offs, i)
		i += n
	}
	offs = append(offs, len(s.S))
	return
}

func (m *Machine) strIndex(s, sub Str) int {
	n, k := len(s.S), len(sub.S)
	if k == 0 {
		return 0
	}
	for i := 0; i+k <= n; i++ {
		if m.branch(m.strEq(s.slice(i, i+k), sub), "strings.Index") {
			return i
		}
	}
	return -1
}

func (m *Machine) strLastIndex(s, sub Str) int {
	n, k := len(s.S), len(sub.S)
	if k == 0 {
		return n
	}
	for i := n - k; i >= 0; i-- {
		if m.branch(m.strEq(s.slice(i, i+k), sub), "strings.LastIndex") {
			return i
		}
	}
	return -1
}

func (m *Machine) byteEq(a BV, b BV) BoolV { return m.equalVals(a, b) }

func (m *Machine) strIndexByte(s Str, c BV) int {
	for i := 0; i < len(s.S); i++ {
		if m.branch(m.byteEq(s.byteAt(i), c), "IndexByte") {
			return i
		}
	}
	return -1
}

func (m *Machine) sliceToStr(sl Slice) Str {
	bs := make([]BV, sl.len)
	for i := range bs {
		bs[i] = sl.o.slots[sl.off+i].(BV)
	}
	return strFromBytes(bs)
}

func (m *Machine) strSliceValue(parts []Str) Slice {
	sl := m.makeSlice(types.Typ[types.String], len(parts), len(parts))
	for i, p := range parts {
		sl.o.slots[i] = p
	}
	return sl
}

func (m *Machine) mapRunes(s Str, fn string) Str {
	rs, _ := m.runeSpans(s)
	out := make([]BV, len(rs))
	for i, r := range rs {
		if r.T != nil {
			// Go's own ASCII fast path: decide the class first (then Latin-1)
			if !m.branch(m.fromTerm(m.tc.Cmp(OpUlt, r.T, m.tc.Const(32, 0x80))).(BoolV), "ascii-class") {
				m.branch(m.fromTerm(m.tc.Cmp(OpUlt, r.T, m.tc.Const(32, 0x100))).(BoolV), "latin1-class")
			}
		}
		out[i] = m.runeFn(fn, r)
	}
	// keep ASCII bytes branch-free: a rune known to be < 0x80 maps within ASCII
	return m.runesToStr(out)
}

func registerStringIntrinsics(reg func(string, intrinsicFn)) {
	// wrap: native when concrete, else model
	model := func(name string, f func(m *Machine, args []Value) Value) {
		nat, hasNat := natives[name]
		var bridge intrinsicFn
		if hasNat {
			bridge = nativeBridge(nat)
			delete(natives, name)
		}
		reg(name, func(m *Machine, c *frame, fn *ssa.Function, args []Value) (Value, bool) {
			if bridge != nil {
				if v, ok := bridge(m, c, fn, args); ok {
					return v, true
				}
			}
			return f(m, args), true
		})
	}
	i64 := func(n int) Value { return mkInt(64, uint64(int64(n))) }

	model("strings.Index", func(m *Machine, a []Value) Value { return i64(m.strIndex(argStr(a[0]), argStr(a[1]))) })
	model("strings.LastIndex", func(m *Machine, a []Value) Value { return i64(m.strLastIndex(argStr(a[0]), argStr(a[1]))) })
	model("strings.Contains", func(m *Machine, a []Value) Value {
		return BoolV{C: m.strIndex(argStr(a[0]), argStr(a[1])) >= 0}
	})
	model("strings.IndexByte", func(m *Machine, a []Value) Value { return i64(m.strIndexByte(argStr(a[0]), a[1].(BV))) })
	model("strings.IndexRune", func(m *Machine, a []Value) Value {
		s := argStr(a[0])
		r := a[1].(BV)
		rs, offs := m.runeSpans(s)
		for i, x := range rs {
			if m.branch(m.equalVals(x, r), "IndexRune") {
				return i64(offs[i])
			}
		}
		return i64(-1)
	})
	model("strings.ContainsRune", func(m *Machine, a []Value) Value {
		s := argStr(a[0])
		r := a[1].(BV)
		rs, _ := m.runeSpans(s)
		for _, x := range rs {
			if m.branch(m.equalVals(x, r), "ContainsRune") {
				return BoolV{C: true}
			}
		}
		return BoolV{C: false}
	})
	indexAny := func(m *Machine, s, chars Str) int {
		rs, offs := m.runeSpans(s)
		cs, _ := m.runeSpans(chars)
		for i, x := range rs {
			for _, c := range cs {
				if m.branch(m.equalVals(x, c), "IndexAny") {
					return offs[i]
				}
			}
		}
		return -1
	}
	model("strings.IndexAny", func(m *Machine, a []Value) Value { return i64(indexAny(m, argStr(a[0]), argStr(a[1]))) })
	model("strings.ContainsAny", func(m *Machine, a []Value) Value {
		return BoolV{C: indexAny(m, argStr(a[0]), argStr(a[1])) >= 0}
	})
	model("strings.Count", func(m *Machine, a []Value) Value {
		s, sub := argStr(a[0]), argStr(a[1])
		if len(sub.S) == 0 {
			rs, _ := m.runeSpans(s)
			return i64(len(rs) + 1)
		}
		n := 0
		for {
			i := m.strIndex(s, sub)
			if i < 0 {
				return i64(n)
			}
			n++
			s = s.slice(i+len(sub.S), len(s.S))
		}
	})
	split := func(m *Machine, s, sep Str, max int) []Str {
		var parts []Str
		if len(sep.S) == 0 {
			rs, offs := m.runeSpans(s)
			for i := range rs {
				parts = append(parts, s.slice(offs[i], offs[i+1]))
			}
			return parts
		}
		for max < 0 || len(parts) < max-1 {
			i := m.strIndex(s, sep)
			if i < 0 {
				break
			}
			parts = append(parts, s.slice(0, i))
			s = s.slice(i+len(sep.S), len(s.S))
		}
		return append(parts, s)
	}
	model("strings.Split", func(m *Machine, a []Value) Value {
		return m.strSliceValue(split(m, argStr(a[0]), argStr(a[1]), -1))
	})
	model("strings.SplitN", func(m *Machine, a []Value) Value {
		n := int(m.concreteInt(a[2].(BV), "SplitN"))
		if n == 0 {
			return Slice{es: 1}
		}
		return m.strSliceValue(split(m, argStr(a[0]), argStr(a[1]), n))
	})
	replace := func(m *Machine, s, old, nw Str, n int) Str {
		if len(old.S) == 0 {
			m.unsupported("strings.Replace with empty old on symbolic string")
		}
		out := Str{}
		for n != 0 {
			i := m.strIndex(s, old)
			if i < 0 {
				break
			}
			out = concatStr(concatStr(out, s.slice(0, i)), nw)
			s = s.slice(i+len(old.S), len(s.S))
			n--
		}
		return concatStr(out, s).norm()
	}
	model("strings.ReplaceAll", func(m *Machine, a []Value) Value {
		return replace(m, argStr(a[0]), argStr(a[1]), argStr(a[2]), -1)
	})
	model("strings.Replace", func(m *Machine, a []Value) Value {
		return replace(m, argStr(a[0]), argStr(a[1]), argStr(a[2]), int(m.concreteInt(a[3].(BV), "Replace")))
	})
	model("strings.ToLower", func(m *Machine, a []Value) Value { return m.mapRunes(argStr(a[0]), "ToLower") })
	model("strings.ToUpper", func(m *Machine, a []Value) Value { return m.mapRunes(argStr(a[0]), "ToUpper") })
	model("strings.TrimSpace", func(m *Machine, a []Value) Value {
		s := argStr(a[0])
		rs, offs := m.runeSpans(s)
		lo, hi := 0, len(rs)
		for lo < hi && m.branch(m.runePred("IsSpace", rs[lo]), "TrimSpace") {
			lo++
		}
		for hi > lo && m.branch(m.runePred("IsSpace", rs[hi-1]), "TrimSpace") {
			hi--
		}
		return s.slice(offs[lo], offs[hi])
	})
	trimSet := func(m *Machine, s, cut Str, left, right bool) Str {
		rs, offs := m.runeSpans(s)
		cs, _ := m.runeSpans(cut)
		in := func(r BV) bool {
			for _, c := range cs {
				if m.branch(m.equalVals(r, c), "Trim") {
					return true
				}
			}
			return false
		}
		lo, hi := 0, len(rs)
		for left && lo < hi && in(rs[lo]) {
			lo++
		}
		for right && hi > lo && in(rs[hi-1]) {
			hi--
		}
		return s.slice(offs[lo], offs[hi])
	}
	model("strings.Trim", func(m *Machine, a []Value) Value { return trimSet(m, argStr(a[0]), argStr(a[1]), true, true) })
	model("strings.TrimLeft", func(m *Machine, a []Value) Value { return trimSet(m, argStr(a[0]), argStr(a[1]), true, false) })
	model("strings.TrimRight", func(m *Machine, a []Value) Value { return trimSet(m, argStr(a[0]), argStr(a[1]), false, true) })
	reg("strings.TrimRightFunc", func(m *Machine, c *frame, fn *ssa.Function, a []Value) (Value, bool) {
		s := argStr(a[0])
		rs, offs := m.runeSpans(s)
		hi := len(rs)
		for hi > 0 {
			r := m.call(c, a[1], []Value{rs[hi-1]}, 0).(BoolV)
			if !m.branch(r, "TrimRightFunc") {
				break
			}
			hi--
		}
		return s.slice(0, offs[hi]), true
	})
	reg("strings.TrimLeftFunc", func(m *Machine, c *frame, fn *ssa.Function, a []Value) (Value, bool) {
		s := argStr(a[0])
		rs, offs := m.runeSpans(s)
		lo := 0
		for lo < len(rs) {
			r := m.call(c, a[1], []Value{rs[lo]}, 0).(BoolV)
			if !m.branch(r, "TrimLeftFunc") {
				break
			}
			lo++
		}
		return s.slice(offs[lo], len(s.S)), true
	})
	model("strings.EqualFold", func(m *Machine, a []Value) Value {
		x := m.mapRunes(m.mapRunes(argStr(a[0]), "ToUpper"), "ToLower")
		y := m.mapRunes(m.mapRunes(argStr(a[1]), "ToUpper"), "ToLower")
		return m.strEq(x, y)
	})

	// unicode predicates
	for name := range uniPreds {
		if name == "Wide2" || name == "Width0" || name == "Standalone" || strings.HasSuffix(name, "Fixed") {
			continue
		}
		n := name
		reg("unicode."+n, func(m *Machine, _ *frame, _ *ssa.Function, a []Value) (Value, bool) {
			return m.runePred(n, a[0].(BV)), true
		})
	}
	for name := range uniFns {
		n := name
		reg("unicode."+n, func(m *Machine, _ *frame, _ *ssa.Function, a []Value) (Value, bool) {
			return m.runeFn(n, a[0].(BV)), true
		})
	}

	// utf8
	reg("unicode/utf8.DecodeRuneInString", func(m *Machine, _ *frame, _ *ssa.Function, a []Value) (Value, bool) {
		s := argStr(a[0])
		if len(s.S) == 0 {
			return Tuple{mkInt(32, 0xFFFD), mkInt(64, 0)}, true
		}
		r, n := m.decodeRuneAt(s, 0)
		return Tuple{r, i64(n)}, true
	})
	reg("unicode/utf8.DecodeRune", func(m *Machine, _ *frame, _ *ssa.Function, a []Value) (Value, bool) {
		sl := a[0].(Slice)
		if sl.len == 0 {
			return Tuple{mkInt(32, 0xFFFD), mkInt(64, 0)}, true
		}
		r, n := m.decodeRuneAt(m.sliceToStr(sl), 0)
		return Tuple{r, i64(n)}, true
	})
	lastRune := func(m *Machine, s Str) Value {
		if len(s.S) == 0 {
			return Tuple{mkInt(32, 0xFFFD), mkInt(64, 0)}
		}
		if s.Sym == nil {
			r, n := utf8.DecodeLastRuneInString(s.S)
			return Tuple{mkInt(32, uint64(uint32(r))), i64(n)}
		}
		end := len(s.S)
		start := end - 1
		if m.brUlt(s.byteAt(start), 0x80) {
			b := s.byteAt(start)
			if b.T == nil {
				return Tuple{mkInt(32, b.C), i64(1)}
			}
			return Tuple{m.fromTerm(m.tc.Zext(b.T, 32)), i64(1)}
		}
		lim := end - 4
		if lim < 0 {
			lim = 0
		}
		for start--; start >= lim; start-- {
			b := s.byteAt(start)
			// RuneStart: b&0xC0 != 0x80
			isCont := !m.brUlt(b, 0x80) && m.brUlt(b, 0xC0)
			if !isCont {
				break
			}
		}
		if start < 0 {
			start = 0
		}
		r, n := m.decodeRuneAt(s.slice(start, end), 0)
		if start+n != end {
			return Tuple{mkInt(32, 0xFFFD), i64(1)}
		}
		return Tuple{r, i64(n)}
	}
	reg("unicode/utf8.DecodeLastRuneInString", func(m *Machine, _ *frame, _ *ssa.Function, a []Value) (Value, bool) {
		return lastRune(m, argStr(a[0])), true
	})
	reg("unicode/utf8.DecodeLastRune", func(m *Machine, _ *frame, _ *ssa.Function, a []Value) (Value, bool) {
		return lastRune(m, m.sliceToStr(a[0].(Slice))), true
	})
	model("unicode/utf8.RuneCountInString", func(m *Machine, a []Value) Value {
		rs, _ := m.runeSpans(argStr(a[0]))
		return i64(len(rs))
	})
	reg("unicode/utf8.RuneCount", func(m *Machine, _ *frame, _ *ssa.Function, a []Value) (Value, bool) {
		rs, _ := m.runeSpans(m.sliceToStr(a[0].(Slice)))
		return i64(len(rs)), true
	})
	model("unicode/utf8.RuneLen", func(m *Machine, a []Value) Value {
		return i64(len(m.encodeRune(a[0].(BV))))
	})
	reg("unicode/utf8.EncodeRune", func(m *Machine, _ *frame, _ *ssa.Function, a []Value) (Value, bool) {
		sl := a[0].(Slice)
		bs := m.encodeRune(a[1].(BV))
		if len(bs) > sl.len {
			m.goPanicRuntime("index out of range (utf8.EncodeRune)")
		}
		for i, b := range bs {
			m.storeSlot(sl.o, sl.off+i, b)
		}
		return i64(len(bs)), true
	})
	reg("unicode/utf8.AppendRune", func(m *Machine, _ *frame, fn *ssa.Function, a []Value) (Value, bool) {
		bs := m.encodeRune(a[1].(BV))
		tmp := m.makeSlice(types.Typ[types.Uint8], len(bs), len(bs))
		for i, b := range bs {
			tmp.o.slots[i] = b
		}
		return m.appendOp(fn.Signature.Params().At(0).Type(), a[0].(Slice), tmp), true
	})
	reg("unicode/utf8.ValidString", func(m *Machine, _ *frame, _ *ssa.Function, a []Value) (Value, bool) {
		s := argStr(a[0])
		if s.Sym == nil {
			return BoolV{C: utf8.ValidString(s.S)}, true
		}
		for i := 0; i < len(s.S); {
			r, n := m.decodeRuneAt(s, i)
			if n == 1 && r.T == nil && r.C == 0xFFFD {
				return BoolV{C: false}, true
			}
			i += n
		}
		return BoolV{C: true}, true
	})
	reg("unicode/utf8.FullRune", func(m *Machine, _ *frame, _ *ssa.Function, a []Value) (Value, bool) {
		s := m.sliceToStr(a[0].(Slice))
		if s.Sym == nil {
			return BoolV{C: utf8.FullRuneInString(s.S)}, true
		}
		m.unsupported("utf8.FullRune on symbolic bytes")
		return nil, true
	})

	// bytealg leaves (reached from interpreted bytes/strings/bufio code)
	reg("internal/bytealg.IndexByteString", func(m *Machine, _ *frame, _ *ssa.Function, a []Value) (Value, bool) {
		return i64(m.strIndexByte(argStr(a[0]), a[1].(BV))), true
	})
	reg("internal/bytealg.IndexByte", func(m *Machine, _ *frame, _ *ssa.Function, a []Value) (Value, bool) {
		return i64(m.strIndexByte(m.sliceToStr(a[0].(Slice)), a[1].(BV))), true
	})
	reg("internal/bytealg.CountString", func(m *Machine, _ *frame, _ *ssa.Function, a []Value) (Value, bool) {
		s := argStr(a[0])
		n := 0
		for i := 0; i < len(s.S); i++ {
			if m.branch(m.byteEq(s.byteAt(i), a[1].(BV)), "CountString") {
				n++
			}
		}
		return i64(n), true
	})
	reg("internal/bytealg.Count", func(m *Machine, _ *frame, _ *ssa.Function, a []Value) (Value, bool) {
		s := m.sliceToStr(a[0].(Slice))
		n := 0
		for i := 0; i < len(s.S); i++ {
			if m.branch(m.byteEq(s.byteAt(i), a[1].(BV)), "Count") {
				n++
			}
		}
		return i64(n), true
	})
	reg("internal/bytealg.IndexString", func(m *Machine, _ *frame, _ *ssa.Function, a []Value) (Value, bool) {
		return i64(m.strIndex(argStr(a[0]), argStr(a[1]))), true
	})
	reg("internal/bytealg.Index", func(m *Machine, _ *frame, _ *ssa.Function, a []Value) (Value, bool) {
		return i64(m.strIndex(m.sliceToStr(a[0].(Slice)), m.sliceToStr(a[1].(Slice)))), true
	})
	reg("internal/bytealg.Equal", func(m *Machine, _ *frame, _ *ssa.Function, a []Value) (Value, bool) {
		return m.strEq(m.sliceToStr(a[0].(Slice)), m.sliceToStr(a[1].(Slice))), true
	})
	reg("bytes.Equal", func(m *Machine, _ *frame, _ *ssa.Function, a []Value) (Value, bool) {
		return m.strEq(m.sliceToStr(a[0].(Slice)), m.sliceToStr(a[1].(Slice))), true
	})
	reg("internal/bytealg.Compare", func(m *Machine, _ *frame, _ *ssa.Function, a []Value) (Value, bool) {
		x, y := m.sliceToStr(a[0].(Slice)), m.sliceToStr(a[1].(Slice))
		if m.branch(m.strEq(x, y), "Compare") {
			return i64(0), true
		}
		if m.branch(m.strLess(x, y, false), "Compare") {
			return i64(-1), true
		}
		return i64(1), true
	})
}

var _ = unicode.IsSpace
var _ = strings.Index
