package main

// Hash-consed SMT terms (bit-vectors and Bools), constant folding, evaluation under a
// model and SMT-LIB2 printing.

import (
	"fmt"
	"math/bits"
	"strings"
)

type Op uint8

const (
	OpConst Op = iota // bit-vector constant (k) of width w, or Bool constant (w==0, k 0/1)
	OpSym             // named symbol
	OpNot
	OpAnd
	OpOr
	OpEq // over bit-vectors or Bools
	OpIte
	OpAdd
	OpSub
	OpMul
	OpUDiv
	OpSDiv
	OpURem
	OpSRem
	OpBAnd
	OpBOr
	OpBXor
	OpShl
	OpLshr
	OpAshr
	OpBNot
	OpNeg
	OpUlt
	OpUle
	OpSlt
	OpSle
	OpExtract // k = hi<<8 | lo
	OpZext    // to width w
	OpSext    // to width w
	OpConcat
	OpPred // named predicate over a 32-bit vector (unicode tables): name, a
	OpFn32 // named 32->32 function (unicode case mapping): name, a
)

var opName = map[Op]string{
	OpNot: "not", OpAnd: "and", OpOr: "or", OpEq: "=", OpIte: "ite",
	OpAdd: "bvadd", OpSub: "bvsub", OpMul: "bvmul", OpUDiv: "bvudiv", OpSDiv: "bvsdiv",
	OpURem: "bvurem", OpSRem: "bvsrem", OpBAnd: "bvand", OpBOr: "bvor", OpBXor: "bvxor",
	OpShl: "bvshl", OpLshr: "bvlshr", OpAshr: "bvashr", OpBNot: "bvnot", OpNeg: "bvneg",
	OpUlt: "bvult", OpUle: "bvule", OpSlt: "bvslt", OpSle: "bvsle", OpConcat: "concat",
}

type Term struct {
	op      Op
	w       uint16 // 0 = Bool
	a, b, c *Term
	k       uint64
	name    string
	id      int32
}

type termKey struct {
	op      Op
	w       uint16
	a, b, c int32
	k       uint64
	name    string
}

// U8Info marks a term as "byte k of the n-byte UTF-8 encoding of rune r".
type U8Info struct {
	r    *Term
	k, n int
}

type TermCtx struct {
	tab    map[termKey]*Term
	next   int32
	u8     map[*Term]U8Info
	tt, ff *Term
}

func NewTermCtx() *TermCtx {
	c := &TermCtx{tab: map[termKey]*Term{}, u8: map[*Term]U8Info{}}
	c.tt = c.mk(OpConst, 0, nil, nil, nil, 1, "")
	c.ff = c.mk(OpConst, 0, nil, nil, nil, 0, "")
	return c
}

func tid(t *Term) int32 {
	if t == nil {
		return -1
	}
	return t.id
}

func (c *TermCtx) mk(op Op, w uint16, a, b, cc *Term, k uint64, name string) *Term {
	key := termKey{op, w, tid(a), tid(b), tid(cc), k, name}
	if t, ok := c.tab[key]; ok {
		return t
	}
	t := &Term{op: op, w: w, a: a, b: b, c: cc, k: k, name: name, id: c.next}
	c.next++
	c.tab[key] = t
	return t
}

func mask(w uint16) uint64 {
	if w >= 64 {
		return ^uint64(0)
	}
	return (uint64(1) << w) - 1
}

func sext(v uint64, w uint16) int64 {
	if w >= 64 {
		return int64(v)
	}
	sh := 64 - uint(w)
	return int64(v<<sh) >> sh
}

func (c *TermCtx) Const(w uint16, v uint64) *Term {
	return c.mk(OpConst, w, nil, nil, nil, v&mask(w), "")
}
func (c *TermCtx) BoolC(b bool) *Term {
	if b {
		return c.tt
	}
	return c.ff
}
func (c *TermCtx) Sym(name string, w uint16) *Term {
	return c.mk(OpSym, w, nil, nil, nil, 0, name)
}
func (t *Term) isConst() bool { return t.op == OpConst }
func (t *Term) isTrue() bool  { return t.op == OpConst && t.w == 0 && t.k == 1 }
func (t *Term) isFalse() bool { return t.op == OpConst && t.w == 0 && t.k == 0 }

func (c *TermCtx) Not(a *Term) *Term {
	if a.isConst() {
		return c.BoolC(a.k == 0)
	}
	if a.op == OpNot {
		return a.a
	}
	return c.mk(OpNot, 0, a, nil, nil, 0, "")
}
func (c *TermCtx) And(a, b *Term) *Term {
	if a.isConst() {
		if a.k == 1 {
			return b
		}
		return c.ff
	}
	if b.isConst() {
		if b.k == 1 {
			return a
		}
		return c.ff
	}
	if a == b {
		return a
	}
	return c.mk(OpAnd, 0, a, b, nil, 0, "")
}
func (c *TermCtx) Or(a, b *Term) *Term {
	if a.isConst() {
		if a.k == 1 {
			return c.tt
		}
		return b
	}
	if b.isConst() {
		if b.k == 1 {
			return c.tt
		}
		return a
	}
	if a == b {
		return a
	}
	return c.mk(OpOr, 0, a, b, nil, 0, "")
}
func (c *TermCtx) Eq(a, b *Term) *Term {
	if a == b {
		return c.tt
	}
	if a.isConst() && b.isConst() {
		return c.BoolC(a.k == b.k)
	}
	if a.w != b.w {
		panic(fmt.Sprintf("Eq width mismatch %d %d", a.w, b.w))
	}
	if a.isConst() {
		a, b = b, a
	}
	// zext(x) == const  with const outside range => false; else compare narrow
	if b.isConst() && a.op == OpZext {
		if b.k > mask(a.a.w) {
			return c.ff
		}
		return c.Eq(a.a, c.Const(a.a.w, b.k))
	}
	if a.w == 0 && b.isConst() {
		if b.k == 1 {
			return a
		}
		return c.Not(a)
	}
	if a.id > b.id && !b.isConst() {
		a, b = b, a
	}
	return c.mk(OpEq, 0, a, b, nil, 0, "")
}
func (c *TermCtx) Ite(cond, a, b *Term) *Term {
	if cond.isConst() {
		if cond.k == 1 {
			return a
		}
		return b
	}
	if a == b {
		return a
	}
	if a.w == 0 {
		if a.isTrue() && b.isFalse() {
			return cond
		}
		if a.isFalse() && b.isTrue() {
			return c.Not(cond)
		}
	}
	return c.mk(OpIte, a.w, cond, a, b, 0, "")
}

func foldBin(op Op, w uint16, x, y uint64) (uint64, bool) {
	m := mask(w)
	switch op {
	case OpAdd:
		return (x + y) & m, true
	case OpSub:
		return (x - y) & m, true
	case OpMul:
		return (x * y) & m, true
	case OpUDiv:
		if y == 0 {
			return m, true
		}
		return (x / y) & m, true
	case OpURem:
		if y == 0 {
			return x, true
		}
		return (x % y) & m, true
	case OpSDiv:
		sx, sy := sext(x, w), sext(y, w)
		if sy == 0 {
			if sx < 0 {
				return 1, true
			}
			return m, true
		}
		if sy == -1 {
			return uint64(-sx) & m, true
		}
		return uint64(sx/sy) & m, true
	case OpSRem:
		sx, sy := sext(x, w), sext(y, w)
		if sy == 0 {
			return x, true
		}
		if sy == -1 {
			return 0, true
		}
		return uint64(sx%sy) & m, true
	case OpBAnd:
		return x & y, true
	case OpBOr:
		return x | y, true
	case OpBXor:
		return x ^ y, true
	case OpShl:
		if y >= uint64(w) {
			return 0, true
		}
		return (x << y) & m, true
	case OpLshr:
		if y >= uint64(w) {
			return 0, true
		}
		return (x >> y) & m, true
	case OpAshr:
		sx := sext(x, w)
		if y >= uint64(w) {
			y = uint64(w) - 1
		}
		return uint64(sx>>y) & m, true
	}
	return 0, false
}

func (c *TermCtx) Bin(op Op, a, b *Term) *Term {
	if a.w != b.w {
		panic(fmt.Sprintf("Bin %v width mismatch %d %d", opName[op], a.w, b.w))
	}
	if a.isConst() && b.isConst() {
		if v, ok := foldBin(op, a.w, a.k, b.k); ok {
			return c.Const(a.w, v)
		}
	}
	switch op {
	case OpAdd:
		if a.isConst() && a.k == 0 {
			return b
		}
		if b.isConst() && b.k == 0 {
			return a
		}
	case OpSub:
		if b.isConst() && b.k == 0 {
			return a
		}
		if a == b {
			return c.Const(a.w, 0)
		}
	case OpBOr, OpBXor:
		if a.isConst() && a.k == 0 {
			return b
		}
		if b.isConst() && b.k == 0 {
			return a
		}
	case OpBAnd:
		if a.isConst() && a.k == mask(a.w) {
			return b
		}
		if b.isConst() && b.k == mask(a.w) {
			return a
		}
		if (a.isConst() && a.k == 0) || (b.isConst() && b.k == 0) {
			return c.Const(a.w, 0)
		}
	case OpMul:
		if a.isConst() && a.k == 1 {
			return b
		}
		if b.isConst() && b.k == 1 {
			return a
		}
	case OpShl, OpLshr, OpAshr:
		if b.isConst() && b.k == 0 {
			return a
		}
	}
	return c.mk(op, a.w, a, b, nil, 0, "")
}

func (c *TermCtx) Cmp(op Op, a, b *Term) *Term {
	if a.w != b.w {
		panic("Cmp width mismatch")
	}
	if a.isConst() && b.isConst() {
		switch op {
		case OpUlt:
			return c.BoolC(a.k < b.k)
		case OpUle:
			return c.BoolC(a.k <= b.k)
		case OpSlt:
			return c.BoolC(sext(a.k, a.w) < sext(b.k, a.w))
		case OpSle:
			return c.BoolC(sext(a.k, a.w) <= sext(b.k, a.w))
		}
	}
	if a == b {
		return c.BoolC(op == OpUle || op == OpSle)
	}
	return c.mk(op, 0, a, b, nil, 0, "")
}

func (c *TermCtx) BNot(a *Term) *Term {
	if a.isConst() {
		return c.Const(a.w, ^a.k)
	}
	return c.mk(OpBNot, a.w, a, nil, nil, 0, "")
}
func (c *TermCtx) Neg(a *Term) *Term {
	if a.isConst() {
		return c.Const(a.w, -a.k)
	}
	return c.mk(OpNeg, a.w, a, nil, nil, 0, "")
}
func (c *TermCtx) Extract(a *Term, hi, lo int) *Term {
	w := uint16(hi - lo + 1)
	if a.isConst() {
		return c.Const(w, a.k>>uint(lo))
	}
	if lo == 0 && w == a.w {
		return a
	}
	if (a.op == OpZext || a.op == OpSext) && hi < int(a.a.w) {
		return c.Extract(a.a, hi, lo)
	}
	if a.op == OpZext && lo >= int(a.a.w) {
		return c.Const(w, 0)
	}
	return c.mk(OpExtract, w, a, nil, nil, uint64(hi)<<8|uint64(lo), "")
}
func (c *TermCtx) Zext(a *Term, w uint16) *Term {
	if a.w == w {
		return a
	}
	if a.w > w {
		return c.Extract(a, int(w)-1, 0)
	}
	if a.isConst() {
		return c.Const(w, a.k)
	}
	if a.op == OpZext {
		return c.Zext(a.a, w)
	}
	return c.mk(OpZext, w, a, nil, nil, 0, "")
}
func (c *TermCtx) Sext(a *Term, w uint16) *Term {
	if a.w == w {
		return a
	}
	if a.w > w {
		return c.Extract(a, int(w)-1, 0)
	}
	if a.isConst() {
		return c.Const(w, uint64(sext(a.k, a.w)))
	}
	return c.mk(OpSext, w, a, nil, nil, 0, "")
}
func (c *TermCtx) Concat(a, b *Term) *Term {
	w := a.w + b.w
	if a.isConst() && b.isConst() {
		return c.Const(w, a.k<<b.w|b.k)
	}
	return c.mk(OpConcat, w, a, b, nil, 0, "")
}
func (c *TermCtx) Pred(name string, a *Term) *Term {
	if a.isConst() {
		return c.BoolC(evalPred(name, a.k))
	}
	return c.mk(OpPred, 0, a, nil, nil, 0, name)
}
func (c *TermCtx) Fn32(name string, a *Term) *Term {
	if a.isConst() {
		return c.Const(32, evalFn32(name, a.k))
	}
	return c.mk(OpFn32, 32, a, nil, nil, 0, name)
}

// ---------------------------------------------------------------------------
// Evaluation under a model (missing symbols are 0).

type Model map[string]uint64

func evalTerm(t *Term, m Model, memo map[*Term]uint64) uint64 {
	switch t.op {
	case OpConst:
		return t.k
	case OpSym:
		return m[t.name] & func() uint64 {
			if t.w == 0 {
				return 1
			}
			return mask(t.w)
		}()
	}
	if v, ok := memo[t]; ok {
		return v
	}
	var v uint64
	b2u := func(b bool) uint64 {
		if b {
			return 1
		}
		return 0
	}
	switch t.op {
	case OpNot:
		v = 1 - evalTerm(t.a, m, memo)
	case OpAnd:
		v = evalTerm(t.a, m, memo) & evalTerm(t.b, m, memo)
	case OpOr:
		v = evalTerm(t.a, m, memo) | evalTerm(t.b, m, memo)
	case OpEq:
		v = b2u(evalTerm(t.a, m, memo) == evalTerm(t.b, m, memo))
	case OpIte:
		if evalTerm(t.a, m, memo) == 1 {
			v = evalTerm(t.b, m, memo)
		} else {
			v = evalTerm(t.c, m, memo)
		}
	case OpUlt:
		v = b2u(evalTerm(t.a, m, memo) < evalTerm(t.b, m, memo))
	case OpUle:
		v = b2u(evalTerm(t.a, m, memo) <= evalTerm(t.b, m, memo))
	case OpSlt:
		v = b2u(sext(evalTerm(t.a, m, memo), t.a.w) < sext(evalTerm(t.b, m, memo), t.a.w))
	case OpSle:
		v = b2u(sext(evalTerm(t.a, m, memo), t.a.w) <= sext(evalTerm(t.b, m, memo), t.a.w))
	case OpBNot:
		v = ^evalTerm(t.a, m, memo) & mask(t.w)
	case OpNeg:
		v = -evalTerm(t.a, m, memo) & mask(t.w)
	case OpExtract:
		lo := uint(t.k & 0xff)
		v = (evalTerm(t.a, m, memo) >> lo) & mask(t.w)
	case OpZext:
		v = evalTerm(t.a, m, memo)
	case OpSext:
		v = uint64(sext(evalTerm(t.a, m, memo), t.a.w)) & mask(t.w)
	case OpConcat:
		v = evalTerm(t.a, m, memo)<<t.b.w | evalTerm(t.b, m, memo)
	case OpPred:
		v = b2u(evalPred(t.name, evalTerm(t.a, m, memo)))
	case OpFn32:
		v = evalFn32(t.name, evalTerm(t.a, m, memo))
	default:
		r, ok := foldBin(t.op, t.w, evalTerm(t.a, m, memo), evalTerm(t.b, m, memo))
		if !ok {
			panic("evalTerm: op " + opName[t.op])
		}
		v = r
	}
	memo[t] = v
	return v
}

// ---------------------------------------------------------------------------
// SMT-LIB printing

func sortOf(w uint16) string {
	if w == 0 {
		return "Bool"
	}
	return fmt.Sprintf("(_ BitVec %d)", w)
}

func constLit(w uint16, k uint64) string {
	if w == 0 {
		if k == 1 {
			return "true"
		}
		return "false"
	}
	if w%4 == 0 {
		return fmt.Sprintf("#x%0*x", int(w/4), k)
	}
	return fmt.Sprintf("#b%0*b", int(w), k)
}

// smtRef returns the name by which term t is referred to in solver text.
func smtRef(t *Term) string {
	switch t.op {
	case OpConst:
		return constLit(t.w, t.k)
	case OpSym:
		return "|" + t.name + "|"
	case OpPred, OpFn32:
		if isBaseApp(t) {
			return "|ub:" + t.name + ":" + t.a.name + "|"
		}
		return fmt.Sprintf("u!%d", t.id)
	}
	return fmt.Sprintf("t!%d", t.id)
}

// smtDef returns the definition body of a non-leaf term in terms of its children refs.
func smtDef(t *Term) string {
	switch t.op {
	case OpExtract:
		return fmt.Sprintf("((_ extract %d %d) %s)", t.k>>8, t.k&0xff, smtRef(t.a))
	case OpZext:
		return fmt.Sprintf("((_ zero_extend %d) %s)", t.w-t.a.w, smtRef(t.a))
	case OpSext:
		return fmt.Sprintf("((_ sign_extend %d) %s)", t.w-t.a.w, smtRef(t.a))
	case OpPred, OpFn32:
		return fmt.Sprintf("(%s %s)", t.name, smtRef(t.a))
	}
	var sb strings.Builder
	sb.WriteString("(")
	sb.WriteString(opName[t.op])
	for _, x := range []*Term{t.a, t.b, t.c} {
		if x != nil {
			sb.WriteString(" ")
			sb.WriteString(smtRef(x))
		}
	}
	sb.WriteString(")")
	return sb.String()
}

func (t *Term) String() string {
	switch t.op {
	case OpConst, OpSym:
		return smtRef(t)
	}
	var sb strings.Builder
	var rec func(t *Term, d int)
	rec = func(t *Term, d int) {
		if t.op == OpConst || t.op == OpSym {
			sb.WriteString(smtRef(t))
			return
		}
		if d > 6 {
			sb.WriteString("…")
			return
		}
		switch t.op {
		case OpExtract:
			fmt.Fprintf(&sb, "(extract %d %d ", t.k>>8, t.k&0xff)
		case OpZext:
			sb.WriteString("(zext ")
		case OpSext:
			sb.WriteString("(sext ")
		case OpPred, OpFn32:
			sb.WriteString("(" + t.name + " ")
		default:
			sb.WriteString("(" + opName[t.op] + " ")
		}
		first := true
		for _, x := range []*Term{t.a, t.b, t.c} {
			if x != nil {
				if !first {
					sb.WriteString(" ")
				}
				first = false
				rec(x, d+1)
			}
		}
		sb.WriteString(")")
	}
	rec(t, 0)
	return sb.String()
}

func collectSyms(t *Term, seen map[*Term]bool, out *[]*Term) {
	if t == nil || seen[t] {
		return
	}
	seen[t] = true
	if t.op == OpSym {
		*out = append(*out, t)
		return
	}
	collectSyms(t.a, seen, out)
	collectSyms(t.b, seen, out)
	collectSyms(t.c, seen, out)
}

var _ = bits.Len
