package main

// Display width (github.com/rivo/uniseg) — native for concrete strings, per-rune model
// for symbolic runes restricted to runes that form their own grapheme cluster.

import (
	"github.com/rivo/uniseg"
)

func stringWidthNative(s string) int { return uniseg.StringWidth(s) }

func runeIsWide(r rune) bool      { return uniseg.StringWidth(string(r)) == 2 }
func runeIsZeroWidth(r rune) bool { return uniseg.StringWidth(string(r)) == 0 }

// runeStandalone: r neither joins ASCII neighbours nor itself into one cluster, so widths
// of strings of such runes are additive.
func runeStandalone(r rune) bool {
	if r < 0x20 {
		return true // controls: width 0, additive
	}
	if r < 0x7f {
		return true
	}
	w := uniseg.StringWidth(string(r))
	if uniseg.StringWidth("a"+string(r)+"a") != 2+w {
		return false
	}
	if uniseg.StringWidth(string(r)+string(r)) != 2*w {
		return false
	}
	if uniseg.GraphemeClusterCount("a"+string(r)+"a") != 3 || uniseg.GraphemeClusterCount(string(r)+string(r)) != 2 {
		return false
	}
	return true
}

func init() {
	uniPreds["Standalone"] = runeStandalone
}

func (m *Machine) symStringWidth(s Str) Value {
	rs, _ := m.runeSpans(s)
	total := 0
	// concrete runs are measured natively only if every rune in the string is standalone
	for _, r := range rs {
		if r.T == nil {
			c := rune(int32(uint32(r.C)))
			if !runeStandalone(c) {
				m.unsupported("uniseg width model: concrete rune U+%04X is not a standalone cluster next to symbolic text", c)
			}
			total += uniseg.StringWidth(string(c))
			continue
		}
		if !m.branch(m.runePred("Standalone", r), "width-standalone") {
			m.unsupported("uniseg width model: symbolic rune may combine with neighbours (outside the supported classes)")
		}
		if m.branch(m.runePred("Wide2", r), "width-2") {
			total += 2
		} else if m.branch(m.runePred("Width0", r), "width-0") {
			// zero width
		} else {
			total++
		}
	}
	return mkInt(64, uint64(total))
}
