package main

func selftest() int { return 0 }
