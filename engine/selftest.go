package main

import (
	"fmt"
	"os"
	"runtime"
)

// selftest validates the engine's models of library functions against the real functions
// (harness package internal/zzself): inputs are symbolic but pinned to constants, so every
// assertion must be discharged by the solver; any violation, unsupported path or solver
// unknown fails the self-test.
func selftest() int {
	prog, err := loadProgram()
	if err != nil {
		fmt.Fprintln(os.Stderr, "selftest: cannot load:", err)
		return 2
	}
	var jobs []*Job
	for i := 0; i < 15; i++ {
		jobs = append(jobs, mkJob("/internal/zzself.ZZ_Self_Strings", "", "i", itoa(i)))
	}
	for i := 0; i < 26; i++ {
		jobs = append(jobs, mkJob("/internal/zzself.ZZ_Self_Runes", "", "i", itoa(i)))
	}
	ex := NewExplorer(prog, runtime.NumCPU())
	ex.Run(jobs)
	bad := 0
	paths := 0
	for _, j := range jobs {
		for k, n := range j.paths {
			paths += n
			switch k {
			case "returned", "assume-false":
			default:
				bad += n
				fmt.Fprintf(os.Stderr, "selftest: %s: %d paths ended %s %v\n", j.Name, n, k, j.unsupported)
			}
		}
		for _, v := range dedupViolations(j.violations) {
			bad++
			fmt.Fprintf(os.Stderr, "selftest: model disagrees with library: %s in %s (%v)\n", v.Label, j.Name, v.Vals)
		}
	}
	fmt.Fprintf(os.Stderr, "selftest: %d jobs, %d paths, %d solver queries, %d problems\n", len(jobs), paths, ex.solverStats.q, bad)
	if bad > 0 {
		return 1
	}
	return 0
}
