package main

// Property definitions: which harness jobs make up each check, per tier.

import (
	"fmt"
	"sort"
	"strings"
)

func mkJob(harness, setup string, kv ...string) *Job {
	j := &Job{Harness: repoPath + harness, Params: map[string]string{}}
	if setup != "" {
		j.Setup = repoPath + setup
	}
	var parts []string
	for i := 0; i+1 < len(kv); i += 2 {
		j.Params[kv[i]] = kv[i+1]
		parts = append(parts, kv[i]+"="+kv[i+1])
	}
	sort.Strings(parts)
	short := harness[strings.LastIndex(harness, ".")+1:]
	j.Name = short + "{" + strings.Join(parts, ",") + "}"
	j.Params["__harness"] = j.Harness
	return j
}

func itoa(i int) string { return fmt.Sprint(i) }

// paintStubs are the pure painting functions of the display engine. For properties that
// do not read the screen they are replaced by no-ops (their output is discarded anyway);
// Refresh itself, the cursor-position query, autocompletion and prompts still run.
var paintStubs = []string{
	"(*" + repoPath + "/internal/display.Engine).displayLine",
	"(*" + repoPath + "/internal/display.Engine).displayMultilinePrompts",
	repoPath + "/internal/core.CoordinatesCursor",
	repoPath + "/internal/core.CoordinatesLine",
	repoPath + "/internal/ui.DisplayHint",
	repoPath + "/internal/ui.CoordinatesHint",
	repoPath + "/internal/completion.Display",
	repoPath + "/internal/completion.Coordinates",
}

func init() {
	checks["C19"] = &CheckDef{
		ID: "C19",
		Jobs: func(tier string) []*Job {
			var jobs []*Job
			maxN := 2
			if tier == "thorough" {
				maxN = 3
			}
			for n := 1; n <= maxN; n++ {
				for _, mac := range []string{"0", "1"} {
					j := mkJob("/inputrc.ZZ_C19_Escape", "", "n", itoa(n), "macro", mac)
					j.Reach = []string{"escaped"}
					jobs = append(jobs, j)
				}
			}
			return jobs
		},
		Assumptions: []string{
			"runes are Unicode scalar values; r <= 0xFF or unicode.IsPrint(r) (the property's stated domain)",
			"unicode.IsPrint/ToUpper are exact range formulas generated from the running toolchain's tables",
		},
		Stubs:  []string{"fmt.Sprintf modelled (symbolic %x digits)", "strings.Join/unicode.* models"},
		Bounds: map[string]string{"quick": "sequence length n <= 2", "thorough": "sequence length n <= 3"},
		Rule:   "one state per completed symbolic path; a path covers every rune assignment satisfying its path condition",
	}
}

// evalStrings runs a concrete harness function returning []string.
func evalStrings(p *Program, fn string) ([]string, error) {
	m := NewMachine(p)
	var out []string
	var err error
	func() {
		defer func() {
			if r := recover(); r != nil {
				err = fmt.Errorf("%s", describePanic(m, r))
			}
		}()
		m.spawn = func(WorkItem) { panic("symbolic decision in concrete evaluation") }
		m.job = &Job{Params: map[string]string{}}
		m.initAll()
		f := p.lookupFunc(repoPath + fn)
		if f == nil {
			panic("no such function " + fn)
		}
		sl := m.callSSA(nil, f, nil, nil).(Slice)
		for i := 0; i < sl.len; i++ {
			out = append(out, sl.o.slots[sl.off+i].(Str).S)
		}
	}()
	return out, err
}
