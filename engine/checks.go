package main

// Property definitions: which harness jobs make up each check, per tier.

import (
	"fmt"
	"sort"
	"strings"
)

func mkJob(harness, setup string, kv ...string) *Job {
	j := &Job{Harness: repoPath + harness, Params: map[string]string{}}
	if setup != "" {
		j.Setup = repoPath + setup
	}
	var parts []string
	for i := 0; i+1 < len(kv); i += 2 {
		j.Params[kv[i]] = kv[i+1]
		parts = append(parts, kv[i]+"="+kv[i+1])
	}
	sort.Strings(parts)
	short := harness[strings.LastIndex(harness, ".")+1:]
	j.Name = short + "{" + strings.Join(parts, ",") + "}"
	j.Params["__harness"] = j.Harness
	return j
}

func itoa(i int) string { return fmt.Sprint(i) }

// paintStubs are the pure painting functions of the display engine. For properties that
// do not read the screen they are replaced by no-ops (their output is discarded anyway);
// Refresh itself, the cursor-position query, autocompletion and prompts still run.
var paintStubs = []string{
	"(*" + repoPath + "/internal/display.Engine).displayLine",
	"(*" + repoPath + "/internal/display.Engine).displayMultilinePrompts",
	repoPath + "/internal/core.CoordinatesCursor",
	repoPath + "/internal/core.CoordinatesLine",
	repoPath + "/internal/ui.DisplayHint",
	repoPath + "/internal/ui.CoordinatesHint",
	repoPath + "/internal/completion.Display",
	repoPath + "/internal/completion.Coordinates",
}

func init() {
	checks["C19"] = &CheckDef{
		ID: "C19",
		Jobs: func(tier string, p *Program) []*Job {
			var jobs []*Job
			maxN := 2
			if tier == "thorough" {
				maxN = 3
			}
			for n := 1; n <= maxN; n++ {
				for _, mac := range []string{"0", "1"} {
					j := mkJob("/inputrc.ZZ_C19_Escape", "", "n", itoa(n), "macro", mac)
					j.Reach = []string{"escaped"}
					jobs = append(jobs, j)
				}
			}
			// second half: dump commands in inputrc format, parsed back
			type dcfg struct {
				kind string
				n, m int
			}
			dumps := []dcfg{{"bind", 1, 0}, {"bind", 2, 0}, {"macro", 1, 1}, {"var", 0, 1}, {"var", 0, 2}, {"defaults", 0, 0}}
			if tier == "thorough" {
				dumps = append(dumps, dcfg{"macro", 1, 2}, dcfg{"macro", 2, 1}, dcfg{"var", 0, 3})
			}
			for _, d := range dumps {
				j := mkJob(".ZZ_C19_Dump", shellSetup, "kind", d.kind, "n", itoa(d.n), "m", itoa(d.m))
				j.Stubs = paintStubs
				j.Reach = []string{"dumped"}
				jobs = append(jobs, j)
			}
			return jobs
		},
		Assumptions: []string{
			"runes are Unicode scalar values; r <= 0xFF or unicode.IsPrint(r) (the property's stated domain)",
			"unicode.IsPrint/ToUpper are exact range formulas generated from the running toolchain's tables",
			"dump jobs (ZZ_C19_Dump): the emacs table is replaced by {symbolic sequence -> forward-char or -> macro with a symbolic body, C-g -> the dump command, ESC 1 -> digit-argument}; ESC 1 C-g is typed in a real Readline call; the lines of the captured terminal output that start with a quote (or with 'set ') are parsed by inputrc.ParseBytes into a fresh Config (variables: into the running Config after changing the three values) and the binding / the values of one boolean, one integer (-1..120) and one string variable must be the original ones",
			"the symbolic sequence does not start with the keys that run the dump (C-g, ESC 1 / M-1); the string variable's value is printable ASCII that a set directive parses to itself (configurations reachable by parsing)",
		},
		Stubs:  append([]string{"fmt.Sprintf modelled (symbolic %x digits)", "strings.Join/unicode.* models", "dump jobs: tty ioctls, stdin = zzverif.Script, stdout captured as text"}, paintStubs...),
		Bounds: map[string]string{"quick": "Escape/Unescape: sequence length n <= 2; dumps: bound sequence n <= 2, macro body 1, variable value <= 2 characters", "thorough": "Escape/Unescape: n <= 3; dumps: macro body <= 2 or sequence 2, value <= 3"},
		Rule:   "one state per completed symbolic path; a path covers every rune assignment satisfying its path condition",
	}
}

// evalStrings runs a concrete harness function returning []string.
func evalStrings(p *Program, fn string) ([]string, error) {
	m := NewMachine(p)
	var out []string
	var err error
	func() {
		defer func() {
			if r := recover(); r != nil {
				err = fmt.Errorf("%s", describePanic(m, r))
			}
		}()
		m.spawn = func(WorkItem) { panic("symbolic decision in concrete evaluation") }
		m.job = &Job{Params: map[string]string{}}
		m.initAll()
		f := p.lookupFunc(repoPath + fn)
		if f == nil {
			panic("no such function " + fn)
		}
		sl := m.callSSA(nil, f, nil, nil).(Slice)
		for i := 0; i < sl.len; i++ {
			out = append(out, sl.o.slots[sl.off+i].(Str).S)
		}
	}()
	return out, err
}

const shellSetup = ".ZZSetup_Shell"

var pureEmacs = []string{"forward-char", "backward-char", "forward-word", "backward-word", "shell-forward-word",
	"shell-backward-word", "beginning-of-line", "end-of-line", "previous-screen-line", "next-screen-line",
	"copy-region-as-kill", "copy-backward-word", "copy-forward-word", "set-mark", "exchange-point-and-mark",
	"character-search", "character-search-backward", "digit-argument"}

var pureVi = []string{"vi-backward-char", "vi-forward-char", "vi-prev-word", "vi-next-word", "vi-backward-word",
	"vi-forward-word", "vi-backward-bigword", "vi-forward-bigword", "vi-end-word", "vi-end-bigword", "vi-match",
	"vi-column", "vi-end-of-line", "vi-back-to-indent", "vi-first-print", "vi-goto-mark", "vi-backward-end-word",
	"vi-backward-end-bigword", "vi-find-next-char", "vi-find-next-char-skip", "vi-find-prev-char",
	"vi-find-prev-char-skip", "vi-char-search", "vi-yank-whole-line", "vi-set-mark", "vi-arg-digit",
	"beginning-of-line", "end-of-line"}

// commands bound in the operator-pending keymap (internal/keymap/vim.go vioppKeys)
var vioppCommands = []string{"vi-select-inside", "vi-select-surround", "select-a-blank-word", "select-a-shell-word",
	"select-a-word", "select-in-blank-word", "select-in-shell-word", "select-in-word", "down-line", "up-line"}

// commands outside every claim: they spawn an external editor / re-read files
var skipCommands = map[string]string{
	"edit-and-execute-command":    "spawns the external editor (os/exec)",
	"edit-command-line":           "spawns the external editor (os/exec)",
	"vi-edit-and-execute-command": "spawns the external editor (os/exec)",
	"vi-edit-command-line":        "spawns the external editor (os/exec)",
}

func stepJob(mode, cmd string, n int, arg, prefix string, pure bool, inv bool) *Job {
	kv := []string{"mode", mode, "cmd", cmd, "n", itoa(n)}
	if arg != "" {
		kv = append(kv, "arg", arg)
	}
	if prefix != "" {
		kv = append(kv, "prefix", prefix)
	}
	if pure {
		kv = append(kv, "pure", "1")
	}
	if !inv {
		kv = append(kv, "inv", "0")
	}
	j := mkJob(".ZZ_Step", shellSetup, kv...)
	j.Stubs = paintStubs
	j.Reach = []string{"final-wait|returned"}
	return j
}

var stepAssumptions = []string{
	"pre-state = arbitrary buffer of n Unicode scalar values, cursor and mark anywhere in it, installed through Line.Set/Cursor.Set at the first input wait of a real Readline call; other editor components have their post-init values (jobs with hist=1: the history holds a line that extends the buffer, a line equal to it and an unrelated line)",
	"the terminal answers every cursor-position query with ESC[1;1R",
	"painting functions of the display engine are no-ops (their output is not observed): " + strings.Join(paintStubs, ", "),
	"SIGWINCH goroutine is created but never scheduled",
}

func init() {
	checks["C06"] = &CheckDef{
		ID: "C06",
		Jobs: func(tier string, p *Program) []*Job {
			var jobs []*Job
			ns := []int{0, 1, 2}
			if tier == "thorough" {
				ns = []int{0, 1, 2, 3}
			}
			for _, n := range ns {
				for _, cmd := range pureEmacs {
					for _, arg := range []string{"", "2", "-"} {
						if n < 2 && arg != "" && tier != "thorough" {
							continue
						}
						jobs = append(jobs, stepJob("emacs", cmd, n, arg, "", true, true))
					}
					if n <= 1 || tier == "thorough" {
						jobs = append(jobs, stepJob("vi-insert", cmd, n, "", "", true, true))
					}
				}
				// yank operator + motion (and the doubled operator yy) never edit
				if n >= 1 {
					for _, cmd := range []string{"vi-yank-to", "vi-forward-word", "vi-end-word", "vi-backward-word", "vi-end-of-line", "vi-forward-char", "vi-backward-char", "vi-first-print"} {
						jobs = append(jobs, stepJob("vi-command", cmd, n, "", "y", true, true))
					}
				}
				for _, cmd := range pureVi {
					for _, arg := range []string{"", "2"} {
						if n < 2 && arg != "" && tier != "thorough" {
							continue
						}
						jobs = append(jobs, stepJob("vi-command", cmd, n, arg, "", true, true))
					}
				}
			}
			// the same commands with a history that holds a line extending the buffer (the
			// history is a hidden component that is empty in the jobs above)
			hn := 2
			withHist := func(j *Job) *Job {
				j.Params["hist"] = "1"
				j.Name = strings.Replace(j.Name, "{", "{hist=1,", 1)
				return j
			}
			for _, cmd := range pureEmacs {
				jobs = append(jobs, withHist(stepJob("emacs", cmd, hn, "", "", true, true)))
			}
			for _, cmd := range pureVi {
				jobs = append(jobs, withHist(stepJob("vi-command", cmd, hn, "", "", true, true)))
			}
			for _, cmd := range []string{"vi-forward-word", "vi-end-word", "vi-end-of-line"} {
				jobs = append(jobs, withHist(stepJob("vi-command", cmd, hn, "", "y", true, true)))
			}
			// vi history search through the minibuffer ('?', '/'), back to command mode
			for _, key := range []string{"?", "/"} {
				for _, cfg := range [][2]int{{1, 1}, {2, 2}, {1, 2}, {2, 1}} {
					j := mkJob(".ZZ_C06_ViSearch", shellSetup, "key", key, "k", itoa(cfg[0]), "el", itoa(cfg[1]))
					j.Stubs = paintStubs
					j.Reach = []string{"search-done|returned"}
					jobs = append(jobs, j)
				}
			}
			return jobs
		},
		Assumptions: stepAssumptions,
		Stubs:       []string{"tty ioctls", "stdin = zzverif.Script", "stdout discarded"},
		Bounds: map[string]string{"quick": "buffer length n <= 2, one command per step, numeric argument in {none, 2, -}; vi search: pattern and entry of 1-2 letters over {a,b,c}",
			"thorough": "buffer length n <= 3"},
		Rule:        "one state per completed symbolic path of the step harness (a path = a class of buffers/cursors/marks following the same branches through dispatcher and command)",
		IgnoreKinds: []string{"panic", "hang", "deadlock", "spin"}, // C01's subject
	}
}

func init() {
	checks["C01"] = &CheckDef{
		ID: "C01",
		Jobs: func(tier string, p *Program) []*Job {
			var jobs []*Job
			cmds, err := evalStrings(p, ".ZZ_ListCommands")
			if err != nil {
				j := mkJob(".ZZ_Step", shellSetup, "error", err.Error())
				return []*Job{j}
			}
			ns := []int{0, 1}
			if tier == "thorough" {
				ns = []int{0, 1, 2}
			}
			for _, cmd := range cmds {
				if _, skip := skipCommands[cmd]; skip {
					continue
				}
				for _, mode := range []string{"emacs", "vi-insert", "vi-command"} {
					for _, n := range ns {
						j := stepJob(mode, cmd, n, "", "", false, false)
						if n >= 2 {
							// two-character buffers over 7-bit characters (the Unicode class tables
							// of two symbolic runes would take the whole time budget)
							j.Params["alpha"] = "ascii"
							j.Name = strings.Replace(j.Name, "{", "{alpha=ascii,", 1)
							if strings.HasPrefix(cmd, "keyword-") {
								continue // case-folding regexp on symbolic text: not modelled
							}
						}
						jobs = append(jobs, j)
					}
					if tier == "thorough" {
						jobs = append(jobs, stepJob(mode, cmd, 1, "2", "", false, false))
					}
				}
			}
			// every command of the operator-pending keymap behind each operator: `cs"'` reads one
			// key for the surround object and the pending operator reads another one
			for _, op := range [][2]string{{"c", "vi-change-to"}, {"d", "vi-delete-to"}, {"y", "vi-yank-to"}} {
				for _, cmd := range vioppCommands {
					for _, n := range []int{1, 2} {
						j := stepJob("vi-command", cmd, n, "", op[0], false, false)
						j.Params["lk"] = "vi-opp"
						j.Params["op"] = op[1]
						j.Name = strings.Replace(j.Name, "{", "{lk=vi-opp,op="+op[1]+",", 1)
						if n >= 2 {
							j.Params["alpha"] = "ascii"
						}
						jobs = append(jobs, j)
					}
				}
			}
			// short symbolic editing sequences with undo/redo freely mixed (multi-step crashes)
			seqLen := 4
			if tier == "thorough" {
				seqLen = 5
			}
			{
				j := mkJob(".ZZ_C07_Undo", shellSetup, "s", itoa(seqLen), "variant", "crash")
				j.Stubs = paintStubs
				j.Reach = []string{"steps-done"}
				jobs = append(jobs, j)
			}
			// symbolic key bytes after context-opening prefixes, with input faults
			keyJob := func(mode, pre string, k, n int, end string, split bool) {
				kv := []string{"mode", mode, "pre", pre, "k", itoa(k), "n", itoa(n), "end", end}
				if split {
					kv = append(kv, "split", "1")
				}
				j := mkJob(".ZZ_C01_Keys", shellSetup, kv...)
				j.Stubs = paintStubs
				jobs = append(jobs, j)
			}
			pres := map[string][]string{
				"emacs":      {"", "\x1b", "\x18", "\x11", "\x1d", "\x1b[", "\x12"},
				"vi-insert":  {"", "\x1b", "\x16"},
				"vi-command": {"", "d", "c", "y", "v", "V", "f", "r", "\"", "q", "m", "g", "2", "di", "ya"},
			}
			for _, mode := range []string{"emacs", "vi-insert", "vi-command"} {
				faultPre := map[string]bool{"": true, "\x11": true, "f": true, "d": true, "\x16": true}
				for _, pre := range pres[mode] {
					for _, end := range []string{"block", "eof", "err"} {
						if end != "block" && tier != "thorough" && !faultPre[pre] {
							continue
						}
						keyJob(mode, pre, 1, 1, end, false)
						if end == "block" && (tier == "thorough" || pre == "\x1b" || pre == "") {
							keyJob(mode, pre, 1, 1, end, true)
						}
					}
					if tier == "thorough" && (pre == "" || pre == "\x1b" || pre == "\x18" || pre == "d") {
						keyJob(mode, pre, 2, 1, "block", false)
					}
				}
				// faults with no key at all, and a cursor position report typed as input
				for _, end := range []string{"eof", "err"} {
					keyJob(mode, "", 0, 0, end, false)
				}
				keyJob(mode, "\x1b[5;5R", 0, 1, "block", false)
				keyJob(mode, "a\x1b[5;5Rb", 0, 1, "block", false)
			}
			return jobs
		},
		Assumptions: stepAssumptions,
		Stubs:       []string{"tty ioctls", "stdin = zzverif.Script", "stdout discarded"},
		Bounds: map[string]string{"quick": "every registered command x {emacs, vi-insert, vi-command}, buffer length n <= 1, one symbolic argument key for key-reading commands; every operator-pending command behind c/d/y with two symbolic argument keys, n <= 2",
			"thorough": "buffer length n <= 2 (length 2 over 7-bit characters; keyword-increase/decrease up to length 1: their case-folding regexp is not modelled on symbolic text); numeric argument 2 on buffers of length 1; two symbolic key bytes after the prefixes none, ESC, C-x, d; faults after every prefix; undo/redo sequences of 5 steps"},
		Rule: "one state per completed symbolic path of the step harness",
	}
}

var c12Skels = []string{
	// free text
	"?", "??", "@", "@@",
	// directives with holes
	"set ?", "set ??", "set  ?", "set ? ?", "set ?? ?", "set keymap ?", "set editing-mode ?", "set bell-style ??",
	"set history-size ?", "set history-size ??", "set convert-meta ?",
	// the same variable set more than once (the type kept from the first set decides the second)
	"set zz ?\nset zz ?", "set zz ??\nset zz x", "set history-size ?\nset history-size ?", "set zz ?\n$if ?\nset zz ?\n$endif",
	"$?", "$if ?", "$if ??", "$if mode=?", "$if term=?", "$else?", "$endif?", "$include ?", "$include ~/?", "$?? ?",
	"$if mode=?\n$else\n\"a\": x\n$endif", "$endif\n$else\n?", "$if ?\n$if ?\n$endif",
	"\"?", "\"?\"", "\"?\":", "\"?\": ?", "\"??\": ?", "\"\\?\": x", "\"\\??\": x", "\"\\C-?\": x", "\"\\M-?\": x", "\"\\M-\\C-?\": x",
	"\"\\x?\": x", "\"\\x??\": x", "\"\\?\\?\": x", "\"a\": \"?", "\"a\": \"?\"", "\"a\": \"\\?\"", "\"a\":?", "\"a\": ??",
	"'?': ?", "?: x", "??: x", "?-?: x", "C-?: x", "M-?: x", "Control-?: ?", "Meta-Control-?: x", "?-?-?: x", "C-M-?", "DEL?: x",
	"?\n?", "?\r\n?", "#?", " ?", "\t?",
}

func init() {
	checks["C12"] = &CheckDef{
		ID: "C12",
		Jobs: func(tier string, p *Program) []*Job {
			var jobs []*Job
			skels := c12Skels
			if tier == "thorough" {
				skels = append(append([]string{}, skels...), "???", "set ???", "\"\\???\": x", "$if ???", "???: ?", "?-??: ?", "\"\\C-\\M-??\": ?",
					"\"a\": \"???\"", "set ?? ??")
			}
			for _, sk := range skels {
				for _, h := range []string{"config", "default"} {
					setup := ""
					if h == "default" {
						setup = "/inputrc.ZZSetup_DefaultConfig"
					}
					j := mkJob("/inputrc.ZZ_C12_Parse", setup, "skel", sk, "inc", "none", "handler", h)
					j.Reach = []string{"parse"}
					jobs = append(jobs, j)
				}
			}
			for _, inc := range []string{"self", "mutual", "missing"} {
				for _, sk := range []string{"$include a\n", "$include b\n", "$include ?\n", "$if ?\n$include a\n$endif\n"} {
					j := mkJob("/inputrc.ZZ_C12_Parse", "", "skel", sk, "inc", inc, "handler", "config")
					j.Reach = []string{"parse"}
					jobs = append(jobs, j)
				}
			}
			return jobs
		},
		Assumptions: []string{
			"holes '?' range over all Unicode scalar values, '@' over all byte values (invalid UTF-8 included); the surrounding skeleton text is concrete",
			"include graphs are served by the handler's ReadFile: none / a file that includes itself / two files including each other / missing file",
			"parser options strict and halt-on-error are symbolic booleans",
		},
		Stubs:  []string{"bufio.Scanner, bytes.Reader interpreted from their SSA", "os/user.Current stub (home /nonexistent)", "unicode.* exact range formulas"},
		Bounds: map[string]string{"quick": "directive skeletons with up to 3 symbolic holes, free text up to 3 runes/bytes; recursion depth budget 400 frames", "thorough": "up to 4 holes"},
		Rule:   "one state per completed symbolic path of ParseBytes",
	}
}

func init() {
	checks["C13"] = &CheckDef{
		ID: "C13",
		Jobs: func(tier string, p *Program) []*Job {
			maxD := 5
			if tier == "thorough" {
				maxD = 6
			}
			var jobs []*Job
			for d := 1; d <= maxD; d++ {
				j := mkJob("/inputrc.ZZ_C13_Cond", "", "d", itoa(d))
				if d >= 2 {
					j.Reach = []string{"wellformed"}
				}
				jobs = append(jobs, j)
			}
			// condition values and the parser's mode/term with letters of either case (mode= and
			// term= compare exactly; application names without regard to case)
			caseD := []int{2, 3}
			if tier == "thorough" {
				caseD = []int{2, 3, 4}
			}
			for _, d := range caseD {
				j := mkJob("/inputrc.ZZ_C13_Cond", "", "d", itoa(d), "case", "1")
				j.Reach = []string{"wellformed"}
				jobs = append(jobs, j)
			}
			// programs that may $include (once) a file holding a conditional block of its own
			incD := []int{3, 4}
			if tier == "thorough" {
				incD = []int{3, 4, 5}
			}
			for _, d := range incD {
				j := mkJob("/inputrc.ZZ_C13_Cond", "", "d", itoa(d), "inc", "1")
				j.Reach = []string{"wellformed"}
				jobs = append(jobs, j)
			}
			return jobs
		},
		Assumptions: []string{
			"include jobs: a tenth directive kind, $include of a file served by the handler whose content is '$if mode=m<letter> / bind / $else / bind / $endif' with a symbolic letter; reference: the file takes effect iff the including block is active, it is evaluated on its own (fresh condition stack, keymap emacs) and leaves the including file's state untouched",
			"programs are sequences of d directives over {$if mode=, $if term=, $if app, $else, $endif, set keymap, set var on|off, \"\\C-x<i>\": fn, Meta-<i>: \"macro\"}; only well-formed ones (balanced $if/$endif, at most one $else per $if) are compared",
			"literals are chosen where GNU readline's and this library's readings coincide (terminal names without '-', application name registered in lower case); jobs with case=1: the letters of $if values and of the parser's mode and term are of either case (mode=/term= compare exactly, application names case-insensitively)",
			"handler is an empty inputrc.Config",
		},
		Stubs:  []string{"bufio.Scanner/bytes.Reader interpreted"},
		Bounds: map[string]string{"quick": "program length d <= 5; directive kind per slot, condition names and the parser's (mode, term, app) symbolic; with $include: d = 3, 4; mixed-case names: d = 2, 3", "thorough": "d <= 6; with $include d <= 5; mixed-case names d <= 4"},
		Rule:   "one state per completed symbolic path: directive kinds are symbolic ints, $if operands and the parser's mode/term/app are names with a symbolic letter, so which conditions hold is decided by the solver; assertions compare the real Config with the reference evaluator",
	}
}

func init() {
	checks["C08"] = &CheckDef{
		ID: "C08",
		Jobs: func(tier string, p *Program) []*Job {
			var jobs []*Job
			lns := []int{0, 1, 2}
			ks := []int{0, 1, 2}
			el := 1
			if tier == "thorough" {
				lns = []int{0, 1, 2, 3}
				ks = []int{0, 1, 2, 3}
			}
			for _, variant := range []string{"accept", "hold", "infer", "error"} {
				for _, size := range []string{"unset", "sym"} {
					for _, ln := range lns {
						for _, k0 := range ks {
							if variant == "accept" && size == "unset" && ln == lns[0] && k0 == ks[0] {
								// command level: the accept commands typed in a real Readline call
								for _, cmd := range []string{"accept-line", "accept-and-hold", "operate-and-get-next", "accept-and-infer-next-history", "abort", "end-of-file"} {
									for _, ml := range []string{"none", "sym"} {
										for _, n := range []int{0, 1, 2} {
											for _, k := range []int{0, 1} {
												if cmd == "end-of-file" && n > 0 {
													continue
												}
												cj := mkJob(".ZZ_C08_Cmd", shellSetup, "cmd", cmd, "ml", ml, "n", itoa(n), "k", itoa(k))
												cj.Stubs = paintStubs
												cj.Reach = []string{"returned|still-editing"}
												jobs = append(jobs, cj)
											}
										}
									}
								}
							}
							j := mkJob("/internal/history.ZZ_C08_Accept", "", "ns", "1", "k0", itoa(k0), "ln", itoa(ln), "el", itoa(el), "variant", variant, "size", size)
							j.Reach = []string{"accepted"}
							jobs = append(jobs, j)
							if ln > 0 && k0 <= 2 {
								for _, k1 := range []int{0, 1} {
									j := mkJob("/internal/history.ZZ_C08_Accept", "", "ns", "2", "k0", itoa(k0), "k1", itoa(k1), "ln", itoa(ln), "el", itoa(el), "variant", variant, "size", size)
									j.MapOrders = true
									j.Reach = []string{"accepted"}
									jobs = append(jobs, j)
								}
							}
						}
					}
				}
			}
			// the same commands after an earlier Readline call left through each of them
			// (flags kept in Sources between calls)
			for _, prev := range []string{"accept-line", "accept-and-hold", "operate-and-get-next", "accept-and-infer-next-history", "abort"} {
				for _, cmd := range []string{"accept-line", "accept-and-hold", "operate-and-get-next", "abort"} {
					cj := mkJob(".ZZ_C08_Cmd", shellSetup, "cmd", cmd, "ml", "none", "n", "2", "k", "1", "prev", prev)
					cj.Stubs = paintStubs
					cj.Reach = []string{"returned|still-editing", "first-call-returned"}
					jobs = append(jobs, cj)
				}
			}
			return jobs
		},
		Assumptions: []string{
			"sources are in-memory histories (the library's own type) pre-filled with symbolic entries; accept variants call Sources.Accept(hold, infer, err) exactly as accept-line / accept-and-hold / operate-and-get-next / interrupt do",
			"history-size is unset or a symbolic N in [1,4] (explicit 0 and negative values are ambiguous in the statement and are not compared)",
			"text over Latin-1 plus caseless scalar values; map iteration over the bound sources is explored in every order",
		},
		Stubs:  []string{"none beyond strings/unicode models"},
		Bounds: map[string]string{"quick": "line <= 2 runes, <= 2 prior entries of 1 rune per source, 1-2 sources; 5 x 4 pairs of (command ending an earlier call, command under test)", "thorough": "line <= 3 runes, <= 3 prior entries"},
		Rule:   "one state per completed symbolic path of Sources.Accept/Write",
	}
}

func init() {
	checks["C09"] = &CheckDef{
		ID: "C09",
		Jobs: func(tier string, p *Program) []*Job {
			var jobs []*Job
			type cfg struct{ h, el, tl, w int }
			cfgs := []cfg{{0, 1, 1, 2}, {1, 1, 1, 2}, {2, 1, 1, 2}, {2, 1, 0, 2}, {2, 1, 1, 3}, {1, 2, 1, 4}, {1, 3, 2, 4}, {1, 2, 2, 4}}
			if tier == "thorough" {
				cfgs = append(cfgs, cfg{3, 1, 1, 3}, cfg{2, 2, 1, 3}, cfg{2, 1, 2, 3}, cfg{3, 1, 1, 4})
			}
			for _, c := range cfgs {
				for _, set := range []string{"nav", "search", "mixed"} {
					j := mkJob(".ZZ_C09_Nav", shellSetup, "h", itoa(c.h), "el", itoa(c.el), "tl", itoa(c.tl), "w", itoa(c.w), "set", set)
					j.Stubs = paintStubs
					j.Reach = []string{"all-steps"}
					jobs = append(jobs, j)
				}
			}
			// the same walks in a second Readline call on the same shell
			for _, prev := range []string{"accept", "abort", "recall", "walkend"} {
				for _, c := range []cfg{{1, 1, 1, 3}, {2, 1, 1, 3}} {
					j := mkJob(".ZZ_C09_Nav", shellSetup, "h", itoa(c.h), "el", itoa(c.el), "tl", itoa(c.tl), "w", itoa(c.w), "set", "nav", "prev", prev)
					j.Stubs = paintStubs
					j.Reach = []string{"all-steps", "first-call-returned"}
					jobs = append(jobs, j)
				}
			}
			return jobs
		},
		Assumptions: append([]string{
			"history = one in-memory source (the library's type) with h symbolic entries of printable ASCII; in-progress text T of printable ASCII, cursor at its end",
			"jobs with prev=...: an earlier Readline call on the same shell ('zq' accepted and so recorded; 'zq' interrupted; the newest entry recalled and accepted; a walk left by Ctrl-C) precedes the checked one; the entries are those the source holds afterwards",
			"command sequences are symbolic choices over {previous/next/beginning/end-of-history} and {history-search-backward/forward, history-substring-search-backward/forward}, typed one key per read through probe bindings",
			"end-of-history may land on the in-progress text or on the newest entry (code comment and GNU manual differ; both accepted)",
		}, stepAssumptions[1:]...),
		Stubs:  []string{"regexp.Compile(regexp.QuoteMeta(x)) on symbolic x = literal substring search"},
		Bounds: map[string]string{"quick": "h <= 2 entries of 1 char, T <= 1 char, w <= 3 commands; plus one entry of 2-3 chars, T of 1-2 chars with w = 4; walks of 3 commands in a second Readline call (4 ways the first one ended)", "thorough": "h <= 3, entries/T <= 2 chars, w <= 4"},
		Rule:   "one state per completed symbolic path",
	}
}

var killEmacs = []string{"kill-line", "backward-kill-line", "unix-line-discard", "kill-whole-line", "kill-buffer", "kill-word",
	"backward-kill-word", "unix-word-rubout", "kill-region", "shell-kill-word", "shell-backward-kill-word"}
var killVi = []string{"vi-kill-eol", "vi-rubout", "vi-delete", "vi-kill-line", "vi-unix-word-rubout", "backward-kill-word"}

func init() {
	checks["C16"] = &CheckDef{
		ID: "C16",
		Jobs: func(tier string, p *Program) []*Job {
			var jobs []*Job
			ns := []int{1, 2, 3}
			args := []string{"", "2"}
			if tier == "thorough" {
				ns = []int{1, 2, 3, 4}
				args = []string{"", "2", "-"}
			}
			add := func(mode, cmd string, n int, arg, alpha string) {
				kv := []string{"mode", mode, "cmd", cmd, "n", itoa(n), "alpha", alpha}
				if arg != "" {
					kv = append(kv, "arg", arg)
				}
				j := mkJob(".ZZ_C16_KillYank", shellSetup, kv...)
				j.Stubs = paintStubs
				jobs = append(jobs, j)
			}
			for _, n := range ns {
				for _, cmd := range killEmacs {
					for _, arg := range args {
						if arg != "" && n < 2 {
							continue
						}
						add("emacs", cmd, n, arg, "ascii")
					}
					if n <= 2 {
						add("emacs", cmd, n, "", "text")
					}
				}
				for _, cmd := range killVi {
					for _, arg := range args {
						if arg == "-" || (arg != "" && n < 2) {
							continue
						}
						add("vi-command", cmd, n, arg, "ascii")
					}
				}
			}
			// the kill ring outlives the line: kill, Enter, yank in the next Readline call
			for _, cmd := range killEmacs {
				if cmd == "kill-region" {
					continue // without an active region it removes nothing (as in ZZ_C16_KillYank)
				}
				j := mkJob(".ZZ_C16_AcrossCalls", shellSetup, "mode", "emacs", "cmd", cmd, "n", "2")
				j.Stubs = paintStubs
				j.Reach = []string{"yanked"}
				jobs = append(jobs, j)
			}
			for _, cmd := range killVi {
				j := mkJob(".ZZ_C16_AcrossCalls", shellSetup, "mode", "vi-command", "cmd", cmd, "n", "2")
				j.Stubs = paintStubs
				j.Reach = []string{"yanked"}
				jobs = append(jobs, j)
			}
			// "after several kills, yank inserts the most recent one": two kills, then yank
			two := func(mode, c1, c2 string, n int) {
				j := mkJob(".ZZ_C16_TwoKills", shellSetup, "mode", mode, "cmd", c1, "cmd2", c2, "n", itoa(n))
				j.Stubs = paintStubs
				jobs = append(jobs, j)
			}
			pairE := []string{"kill-line", "backward-kill-word", "kill-word", "kill-region", "unix-line-discard"}
			pairV := []string{"vi-delete", "vi-rubout", "vi-kill-eol"}
			tn := 3
			if tier == "thorough" {
				tn = 4
			}
			for _, c1 := range pairE {
				for _, c2 := range pairE {
					two("emacs", c1, c2, tn)
				}
			}
			for _, c1 := range pairV {
				for _, c2 := range pairV {
					two("vi-command", c1, c2, tn)
				}
			}
			return jobs
		},
		Assumptions: append([]string{
			"ZZ_C16_AcrossCalls: the kill runs in one Readline call (n = 2 printable ASCII characters), Enter leaves it, and yank / vi-put-before on the empty line of the next call on the same shell must insert exactly the killed text",
			"ZZ_C16_TwoKills: two kill commands, the cursor (and the mark for kill-region) set to an arbitrary position before each, then yank / vi-put-before: the ring top after the second kill is what it removed and the yank inserts exactly that at the cursor; paths where either kill removes nothing are not asserted",
			"pre-state: buffer of n symbolic runes (ASCII incl. controls, blanks, quotes, newline; or Latin-1 + caseless runes of any UTF-8 length), cursor (and mark for kill-region) anywhere; the kill command and then yank / vi-put-before are typed through their key bindings in a real Readline call",
			"when a kill command removes nothing the statement says nothing and nothing is asserted",
		}, stepAssumptions[1:]...),
		Stubs:  []string{"tty ioctls", "stdin = zzverif.Script", "stdout discarded"},
		Bounds: map[string]string{"quick": "n <= 3 (ASCII), n <= 2 (multi-byte alphabet), numeric argument in {none, 2}; two kills then yank: 5x5 emacs and 3x3 vi command pairs on n = 3; kill in one call and yank in the next: n = 2", "thorough": "n <= 4, argument also '-'; two kills: the same pairs on n = 4"},
		Rule:   "one state per completed symbolic path",
		IgnoreKinds: []string{"panic", "hang", "deadlock", "spin"},
	}
}

var viMotions = []string{"h", "l", "w", "b", "e", "W", "B", "E", "0", "$", "^", "f?", "F?", "t?", "T?", "%", "ge", "gE",
	"iw", "aw", "iW", "aW", "i\"", "a\"", "i'", "a'", "i(", "a(", "i[", "a[", "i{", "a{", "d", "j", "k", "|"}

func init() {
	checks["C17"] = &CheckDef{
		ID: "C17",
		Jobs: func(tier string, p *Program) []*Job {
			var jobs []*Job
			ns := []int{1, 2, 3}
			if tier == "thorough" {
				ns = []int{1, 2, 3, 4}
			}
			for _, n := range ns {
				for _, mo := range viMotions {
					for _, count := range []string{"", "2"} {
						if count != "" && (n < 3 || (tier != "thorough" && len(mo) > 1)) {
							continue
						}
						kv := []string{"motion", mo, "n", itoa(n), "alpha", "ascii"}
						if mo == "d" {
							kv[1] = "d"
						}
						if count != "" {
							kv = append(kv, "count", count)
						}
						j := mkJob(".ZZ_C17_DeleteYank", ".ZZSetup_TwoShells", kv...)
						j.Stubs = paintStubs
						j.Reach = []string{"both-ran"}
						jobs = append(jobs, j)
					}
					if n == 2 {
						j := mkJob(".ZZ_C17_DeleteYank", ".ZZSetup_TwoShells", "motion", mo, "n", itoa(n), "alpha", "text")
						j.Stubs = paintStubs
						jobs = append(jobs, j)
					}
				}
			}
			return jobs
		},
		Assumptions: append([]string{
			"two independent shells start from the same symbolic buffer/cursor in vi command mode; one gets d<count><motion>, the other y<count><motion>; the 'y' harness types the motion 'd' as the doubled operator (dd vs yd is replaced by dd vs yy)",
			"f/F/t/T take a symbolic printable ASCII target character",
		}, stepAssumptions[1:]...),
		Stubs:  []string{"tty ioctls", "stdin = zzverif.Script", "stdout discarded"},
		Bounds: map[string]string{"quick": "buffer n <= 3 ASCII (n = 2 over the multi-byte alphabet), count in {none, 2 (single-key motions)}", "thorough": "n <= 4, count 2 for every motion"},
		Rule:   "one state per completed symbolic path (both operators run inside one path)",
		IgnoreKinds: []string{"panic", "hang", "deadlock", "spin"},
	}
}

func init() {
	checks["C02"] = &CheckDef{
		ID: "C02",
		Jobs: func(tier string, p *Program) []*Job {
			var jobs []*Job
			add := func(mode string, n int, class, meta string) {
				j := mkJob(".ZZ_C02_Typed", shellSetup, "mode", mode, "n", itoa(n), "class", class, "meta", meta)
				j.Stubs = paintStubs
				j.Reach = []string{"returned"}
				jobs = append(jobs, j)
			}
			maxN := 2
			for _, mode := range []string{"emacs", "vi-insert"} {
				if tier == "thorough" {
					// three characters: 95^3 dispatch paths are out of reach; the characters
					// with a meaning of their own in the editor instead
					add(mode, 3, "special", "default")
				}
				for n := 1; n <= maxN; n++ {
					add(mode, n, "ascii", "default")
					if n <= 1 || (tier == "thorough" && n <= 2) {
						add(mode, n, "ascii", "sym")
					}
					if n <= 2 {
						for _, class := range []string{"latin1", "bmp", "astral"} {
							add(mode, n, class, "utf8")
						}
					}
				}
			}
			// the same after an earlier Readline call on the same shell
			for _, prev := range []string{"enter", "abort", "eof", "tab"} {
				for _, mode := range []string{"emacs", "vi-insert"} {
					j := mkJob(".ZZ_C02_Typed", shellSetup, "mode", mode, "n", "2", "class", "special", "meta", "default", "prev", prev)
					j.Stubs = paintStubs
					j.Reach = []string{"returned", "first-call-returned"}
					jobs = append(jobs, j)
				}
			}
			return jobs
		},
		Assumptions: append([]string{
			"typed text = n symbolic runes with unicode.IsPrint (exact range formula), split by class {ASCII, Latin-1, other BMP, astral}; delivered as UTF-8 in one read followed by Enter",
			"ASCII is checked with every meta variable symbolic (convert-meta, input-meta, output-meta, meta-flag, enable-meta-key, byte-oriented); non-ASCII with convert-meta off, input-meta/output-meta on, as the statement fixes",
			"autopairs and autocomplete are off (with them on the library inserts text by design)",
		}, stepAssumptions[1:]...),
		Stubs:  []string{"tty ioctls", "stdin = zzverif.Script", "stdout discarded"},
		Bounds: map[string]string{"quick": "n <= 2 runes; after an earlier call (4 endings): 2 characters of the 14 special ones", "thorough": "n <= 2 runes; all six meta variables symbolic up to n = 2; n = 3 over 14 ASCII characters with a meaning of their own (quotes, brackets, backslash, ~ ^ ` # !, a letter, the blank)"},
		Rule:   "one state per completed symbolic path",
		IgnoreKinds: []string{"panic", "hang", "deadlock", "spin"},
	}
}

func init() {
	checks["C05"] = &CheckDef{
		ID: "C05",
		Jobs: func(tier string, p *Program) []*Job {
			var jobs []*Job
			add := func(mode, pre string, k, n int, co string) {
				j := mkJob(".ZZ_C05_Chunks", ".ZZSetup_TwoShells", "mode", mode, "pre", pre, "k", itoa(k), "n", itoa(n), "co", co)
				j.Stubs = paintStubs
				j.Reach = []string{"both-ran"}
				jobs = append(jobs, j)
			}
			pres := map[string][]string{
				"emacs":      {"\x1b", "\x18", "\x11", "\x1b[", "a"},
				"vi-insert":  {"\x16", "a"},
				"vi-command": {"f", "r", "d", "c", "di", "2", "\""},
			}
			for _, mode := range []string{"emacs", "vi-insert", "vi-command"} {
				for _, pre := range pres[mode] {
					add(mode, pre, 1, 2, "0")
					add(mode, pre, 1, 2, "1")
					if tier == "thorough" && len(pre) == 1 {
						add(mode, pre, 2, 2, "0")
					}
				}
				if tier == "thorough" {
					add(mode, "", 2, 2, "0")
				}
			}
			// the same while a keyboard macro is being recorded and then called: the keys that
			// start, end and call the macro are two-byte sequences that may be split as well
			for _, k := range []int{1} { // (K = 2 multiplies 95^2 key classes by 2^8 chunkings: out of reach)
				j := mkJob(".ZZ_C05_Chunks", ".ZZSetup_TwoShells", "mode", "emacs", "pre", "\x18(", "k", itoa(k), "n", "1", "co", "0", "post", "\x18)\x18e\r", "alpha", "print")
				j.Stubs = paintStubs
				j.Reach = []string{"both-ran"}
				jobs = append(jobs, j)
			}
			return jobs
		},
		Assumptions: append([]string{
			"two shells start from the same buffer; the byte string = concrete prefix + k symbolic bytes; run A gets it in one read, run B under a symbolic chunking (a symbolic cut bit between every two bytes) and with symbolic co-delivery of the next pending chunk in the same read as a cursor-position report (before or after it)",
			"in vi modes a cut directly after an ESC byte is excluded, as the statement does",
			"outcome = returned (line, err), or (buffer, cursor, main keymap, local keymap) at the input wait after the last byte",
		}, stepAssumptions[2:]...),
		Stubs:  []string{"tty ioctls", "stdin = zzverif.Script, cursor reports through the os.Stdin hook", "stdout discarded"},
		Bounds: map[string]string{"quick": "prefix + 1 symbolic byte (2 without prefix), initial buffer of 1 letter, first 3 cursor queries may share their read; macro session C-x ( K C-x ) C-x e Enter with K = 1 printable byte, every cut symbolic", "thorough": "prefix + 2 symbolic bytes; macro session as in the quick tier"},
		Rule:   "one state per completed symbolic path (two Readline runs per path)",
		IgnoreKinds: []string{"panic", "hang", "deadlock", "spin"},
	}
}

func init() {
	checks["C18"] = &CheckDef{
		ID: "C18",
		Jobs: func(tier string, p *Program) []*Job {
			var jobs []*Job
			maxK := 2
			if tier == "thorough" {
				maxK = 3
			}
			for k := 1; k <= maxK; k++ {
				for _, style := range []string{"emacs", "vi"} {
					j := mkJob("/internal/macro.ZZ_C18_Unit", "", "k", itoa(k), "style", style)
					j.Reach = []string{"recorded"}
					jobs = append(jobs, j)
				}
			}
			// the statement itself on two Readline sessions: record + call versus typing twice
			type scfg struct {
				k, n  int
				alpha string
			}
			scfgs := []scfg{{1, 0, ""}, {1, 4, ""}, {2, 4, ""}}
			if tier == "thorough" {
				scfgs = append(scfgs, scfg{2, 0, ""}, scfg{2, 6, ""}, scfg{3, 4, "ctl"})
			}
			for _, c := range scfgs {
				for _, style := range []string{"emacs", "vi"} {
					j := mkJob(".ZZ_C18_Session", ".ZZSetup_TwoShellsWrapped", "style", style, "k", itoa(c.k), "n", itoa(c.n), "alpha", c.alpha)
					j.Stubs = paintStubs
					j.Reach = []string{"both-ran"}
					jobs = append(jobs, j)
				}
			}
			// the line is accepted between the recording and the call of the macro
			for _, style := range []string{"emacs", "vi"} {
				j := mkJob(".ZZ_C18_Session", ".ZZSetup_TwoShellsWrapped", "style", style, "k", "1", "n", "2", "calls", "2", "alpha", "")
				j.Stubs = paintStubs
				j.Reach = []string{"both-ran"}
				jobs = append(jobs, j)
			}
			return jobs
		},
		IgnoreKinds: []string{"panic", "hang", "spin", "deadlock"},
		Assumptions: []string{
			"session jobs with calls=2: Enter accepts the line after the recording (shell A) / after the first K (shell B); the macro call / the second K happen in a second Readline call on the same shell (vi: after ESC), whose outcomes are compared",
			"recorded keys are k symbolic ASCII bytes (0x00-0x7F: printable, control, ESC, quotes, backslash); they are recorded through core.MatchedKeys + macro.RecordKeys exactly as the main loop does once per resolved key, stored by StopRecord and replayed by RunLastMacro (emacs style) or RunMacro('a') (vi style); the replayed keys are read back with core.PopKey",
			"non-ASCII keys are outside this check (C02 records that non-ASCII input is dropped before it reaches a command)",
			"session jobs (ZZ_C18_Session): two shells; the first n characters of 'ab c.d' are typed (vi: in insert mode, then ESC), then shell A gets C-x ( K C-x ) C-x e (vi: q a K q @ a) and shell B gets K K, every key in a read of its own; K = k symbolic ASCII bytes; compared: returned line and error, or buffer, cursor, main and local keymap at the wait after the last key",
			"K is a script of complete commands that leaves the macro keys meaningful: after K no command waits for an argument key, no operator for a motion, no prefix for its next key, no search minibuffer is open, the main keymap is unchanged and no local keymap is active; K does not contain the macro keys themselves (C-x in emacs; q, @ in vi); in vi ESC is allowed as last key only, and in emacs ESC is not followed by another key while a local keymap is active (a lone ESC differs from an ESC prefix by timing only, which a macro does not record)",
			"panics and hangs met on the way are C01's subject and ignored here",
		},
		Stubs:  append([]string{"unicode.IsPrint/ToUpper exact formulas; fmt %x model"}, paintStubs...),
		Bounds: map[string]string{"quick": "unit: k <= 2 keys; sessions: k = 1 on an empty and a 4-character buffer, k = 2 on a 4-character buffer; record / call split over two Readline calls: k = 1", "thorough": "unit: k <= 3 keys; sessions: k <= 2 on buffers of 0, 4, 6 characters, k = 3 control/ESC/DEL keys on 4 characters"},
		Rule:   "one state per completed symbolic path",
	}
}

func init() {
	checks["C07"] = &CheckDef{
		ID: "C07",
		Jobs: func(tier string, p *Program) []*Job {
			var jobs []*Job
			maxS := 3
			if tier == "thorough" {
				maxS = 4
			}
			{
				j := mkJob(".ZZ_C07_Undo", shellSetup, "s", itoa(maxS+2), "variant", "walk-deep")
				j.Stubs = paintStubs
				j.Reach = []string{"steps-done"}
				jobs = append(jobs, j)
			}
			for s := 1; s <= maxS; s++ {
				for _, v := range []string{"walk", "redo", "branch"} {
					j := mkJob(".ZZ_C07_Undo", shellSetup, "s", itoa(s), "variant", v)
					j.Stubs = paintStubs
					j.Reach = []string{"steps-done"}
					jobs = append(jobs, j)
				}
			}
			// the same walk after an earlier Readline call on the same shell (the undo
			// histories are kept per history position across calls)
			for _, prev := range []string{"typed", "hist", "abort", "undo", "walkback"} {
				for s := 1; s <= maxS-1; s++ {
					j := mkJob(".ZZ_C07_Undo", shellSetup, "s", itoa(s), "variant", "walk", "prev", prev)
					j.Stubs = paintStubs
					j.Reach = []string{"steps-done", "first-call-returned"}
					jobs = append(jobs, j)
				}
			}
			return jobs
		},
		Assumptions: append([]string{
			"jobs with prev=...: an earlier Readline call on the same shell (two characters typed, then Enter / previous-history + Enter / Ctrl-C / undo + Enter / up, down, Enter; one history source holding one entry) precedes the checked call",
			"emacs mode; s symbolic steps over {insert a, insert b, insert space, backspace, kill-line, yank, kill-word, beginning-of-line, end-of-line, undo (walk variant)} typed one key per read; then a fixed tail of undos/redos",
			"G = the buffers shown at the input waits; initial content = the empty line",
		}, stepAssumptions[1:]...),
		Stubs:  []string{"tty ioctls", "stdin = zzverif.Script", "stdout discarded"},
		Bounds: map[string]string{"quick": "s <= 3 symbolic steps (then up to s+2 undos / 2 undos + 2 redos); after an earlier call: s <= 2", "thorough": "s <= 4; after an earlier call: s <= 3"},
		Rule:   "one state per completed symbolic path (a path = one command sequence)",
		IgnoreKinds: []string{"panic", "hang", "deadlock", "spin"},
	}
}

func init() {
	checks["C03"] = &CheckDef{
		ID: "C03",
		Jobs: func(tier string, p *Program) []*Job {
			var jobs []*Job
			shapes := []string{"1", "2", "11", "12", "22"}
			ms := []int{1, 2, 3}
			if tier == "thorough" {
				shapes = append(shapes, "3", "13", "23", "112", "122", "123")
				ms = []int{1, 2, 3, 4}
			}
			for _, sh := range shapes {
				for _, m := range ms {
					j := mkJob(".ZZ_C03_Dispatch", shellSetup, "lens", sh, "m", itoa(m))
					j.Stubs = paintStubs
					j.Reach = []string{"resolved"}
					jobs = append(jobs, j)
				}
			}
			add := func(reach string, kv ...string) {
				j := mkJob(".ZZ_C03_Dispatch", shellSetup, kv...)
				j.Stubs = paintStubs
				j.Reach = []string{"resolved", reach}
				jobs = append(jobs, j)
			}
			// a binding that is a macro whose keys are another binding's sequence
			macShapes := map[string][]int{"11": {1, 2}, "12": {2, 3}, "21": {2, 3}}
			if tier == "thorough" {
				macShapes = map[string][]int{"11": {1, 2, 3}, "12": {1, 2, 3}, "21": {2, 3}, "22": {2, 3, 4}, "112": {2, 3}, "212": {2, 3}}
			}
			for _, sh := range sortedKeys(macShapes) {
				for _, m := range macShapes[sh] {
					add("macro-fires", "lens", sh, "m", itoa(m), "mac", "1")
				}
			}
			// the other main keymaps, and local keymaps in front of a main one
			kmShapes := []string{"12"}
			if tier == "thorough" {
				kmShapes = []string{"12", "22", "112"}
			}
			for _, sh := range kmShapes {
				m := "3"
				add("some-binding-fires", "lens", sh, "m", m, "km", "vi-insert")
				add("some-binding-fires", "lens", sh, "m", m, "km", "vi-command")
				add("local-attempt-ended-by-a-key", "lens", sh, "m", m, "local", "visual")
				add("local-attempt-ended-by-a-key", "lens", sh, "m", m, "local", "vi-opp", "km", "vi-command")
				add("local-attempt-ended-by-a-key", "lens", sh, "m", m, "local", "menu-select")
				if tier == "thorough" {
					add("macro-fires", "lens", sh, "m", m, "km", "vi-command", "mac", "1")
				}
			}
			return jobs
		},
		Assumptions: append([]string{
			"the emacs keymap is replaced by a symbolic table of T bindings (sequence lengths per job, keys symbolic over {a, b, ESC, C-x, M-a}), each bound to its own probe command; m symbolic keys over {a, b, ESC, C-x} are typed one per read in a real Readline call",
			"only the first resolution is compared (what happens to the key that ends a failed or shortened attempt is C05's subject)",
			"macro jobs: the first binding is a macro whose keys are the second binding's sequence; when the macro's sequence resolves and nothing extends the second sequence, the second binding's probe must run at the key that completed the macro's sequence",
			"keymap jobs: the table replaces vi-insert / vi-command (made the main keymap), or a local keymap (visual, vi-opp, menu-select; made active in front of a main keymap that binds each plain key of the alphabet to a probe of its own; asserted there in addition: a main probe only runs for its own key, and the key that rules out a pending local prefix is not lost — it runs its own local binding or its main-keymap probe); in those keymaps ESC arrives in the same read as the key that follows it (a lone ESC leaves insert mode / cancels the local mode by design; the two are told apart by timing only) and a command is attributed to the read being consumed when it ran; isearch is not covered (needs a live search)",
		}, stepAssumptions[1:]...),
		Stubs:  []string{"tty ioctls", "stdin = zzverif.Script", "stdout discarded"},
		Bounds: map[string]string{"quick": "emacs: tables of <= 2 sequences of length <= 2, m <= 3 keys; macro tables 11/12/21; vi-insert, vi-command, visual, vi-opp, menu-select: table shape 12, m = 3", "thorough": "emacs: tables of <= 3 sequences of length <= 3, m <= 4 keys; macro tables up to 3 sequences; other keymaps: shapes 12, 22, 112, m = 3"},
		Rule:   "one state per completed symbolic path (a path = a class of tables and key strings)",
		IgnoreKinds: []string{"panic", "hang", "deadlock", "spin"},
	}
}

func init() {
	checks["C15"] = &CheckDef{
		ID: "C15",
		Jobs: func(tier string, p *Program) []*Job {
			var jobs []*Job
			ns := []int{1, 2, 3, 5}
			if tier == "thorough" {
				ns = []int{1, 2, 3, 4, 5, 7, 9, 12}
			}
			for _, n := range ns {
				for _, structure := range []string{"plain", "described", "aliased", "tags"} {
					for _, dir := range []string{"fwd", "bwd"} {
						for _, lens := range []string{"1", "172"} {
							if lens != "1" && n < 3 {
								continue
							}
							j := mkJob(".ZZ_C15_Cycle", shellSetup, "n", itoa(n), "lens", lens, "structure", structure, "dir", dir)
							j.Reach = []string{"cycled"}
							jobs = append(jobs, j)
						}
					}
				}
			}
			// shared descriptions with groups of unequal size (rows of different lengths)
			rn := []int{3} // (both tiers: with larger ragged sets the whole check ran out of memory)
			for _, n := range rn {
				for _, structure := range []string{"ragged", "ragged-rev"} {
					for _, dir := range []string{"fwd", "bwd"} {
						j := mkJob(".ZZ_C15_Cycle", shellSetup, "n", itoa(n), "lens", "1", "structure", structure, "dir", dir)
						j.Reach = []string{"cycled"}
						jobs = append(jobs, j)
					}
				}
			}
			return jobs
		},
		Assumptions: []string{
			"the application completer returns n distinct candidates (lengths following a per-job pattern; plain, described, sharing descriptions two by two, or split over two tags); terminal width (1..100) and height (2..40) are symbolic and reach the library through the winsize ioctl stub",
			"menu-complete / menu-complete-backward are typed n+1 times through probe bindings in a real Readline call; the inserted word is read from the buffer at each input wait",
			"the display engine runs unstubbed (the completion grid is built and printed for real; output is discarded); the terminal answers cursor-position queries with ESC[1;1R",
		},
		Stubs:  []string{"tty ioctls (symbolic window size)", "stdin = zzverif.Script", "stdout discarded", "uniseg.StringWidth native on concrete text"},
		Bounds: map[string]string{"quick": "n in {1,2,3,5} candidates, two length patterns, width <= 100, height <= 40; ragged alias groups n = 3", "thorough": "n up to 12; ragged as in the quick tier"},
		Rule:   "one state per completed symbolic path (a path = one class of terminal sizes producing the same grid shape)",
		IgnoreKinds: []string{"panic", "hang", "deadlock", "spin"},
	}
}

func init() {
	checks["C14"] = &CheckDef{
		ID: "C14",
		Jobs: func(tier string, p *Program) []*Job {
			var jobs []*Job
			ns := []int{0, 1, 2}
			if tier == "thorough" {
				ns = []int{0, 1, 2, 3}
			}
			for _, n := range ns {
				for _, m := range []int{1, 2, 3} {
					for _, k := range []int{1, 2} {
						for _, ab := range []string{"0", "1"} {
							if m == 1 && (k > 1 || ab == "1") {
								continue
							}
							j := mkJob(".ZZ_C14_Local", shellSetup, "n", itoa(n), "m", itoa(m), "k", itoa(k), "abort", ab)
							j.Reach = []string{"candidate-inserted"}
							jobs = append(jobs, j)
						}
					}
				}
			}
			// the ways an application can describe its candidates, and menu-complete
			nv := 2
			if tier == "thorough" {
				nv = 3
			}
			for _, style := range []string{"described", "nospace", "tags", "suffix", "icase", "menu-complete"} {
				for _, m := range []int{1, 2, 3} {
					for _, ab := range []string{"0", "1"} {
						if m == 1 && ab == "1" {
							continue
						}
						kv := []string{"n", itoa(nv), "m", itoa(m), "k", "2", "abort", ab, "style", style}
						if style == "menu-complete" {
							kv = []string{"n", itoa(nv), "m", itoa(m), "k", "2", "abort", ab, "cmd", "menu-complete"}
						}
						j := mkJob(".ZZ_C14_Local", shellSetup, kv...)
						j.Reach = []string{"candidate-inserted"}
						jobs = append(jobs, j)
					}
				}
			}
			// completion used twice on one line with an edit in between; the first candidate
			// offered is the typed word itself
			for _, n := range []int{1, 2, 3} {
				if n == 3 && tier != "thorough" {
					continue
				}
				j := mkJob(".ZZ_C14_Again", shellSetup, "n", itoa(n))
				j.Reach = []string{"all-keys"}
				jobs = append(jobs, j)
			}
			return jobs
		},
		Assumptions: []string{
			"buffer of n symbolic characters over {a, b, blank, single quote, é}, cursor anywhere; the application completer returns m candidates that extend the blank-delimited word before the cursor; TAB (complete) is typed k times, optionally followed by Ctrl-C",
			"word start = after the last blank before the cursor (independent reference); a unique candidate may be accepted at once with a trailing space",
			"candidate styles: plain values, values with descriptions, NoSpace(), two tags (groups), Suffix(\"/\") (the word becomes value + suffix), candidates matching only with completion-ignore-case on, and menu-complete instead of complete",
			"the display engine runs unstubbed (menus are built and printed for real, output discarded); the terminal answers cursor-position queries with ESC[1;1R",
		},
		Stubs:  []string{"tty ioctls", "stdin = zzverif.Script", "stdout discarded"},
		Bounds: map[string]string{"quick": "n <= 2, m <= 3 candidates, k <= 2 TABs; six candidate styles at n = 2; repeated completion (ZZ_C14_Again) n <= 2", "thorough": "n <= 3"},
		Rule:   "one state per completed symbolic path",
		IgnoreKinds: []string{"panic", "hang", "deadlock", "spin"},
	}
}

func init() {
	checks["C11"] = &CheckDef{
		ID: "C11",
		Jobs: func(tier string, p *Program) []*Job {
			var jobs []*Job
			lens := []int{0, 1, 3, 6}
			if tier == "thorough" {
				lens = []int{0, 1, 2, 3, 5, 6, 9, 10, 13}
			}
			for _, exit := range []string{"accept", "hold", "abort", "abortg", "eof", "comment", "panic"} {
				for _, mode := range []string{"emacs", "vi-insert", "vi-command"} {
					for _, n := range lens {
						if exit == "eof" && n > 1 {
							continue
						}
						if mode != "emacs" && n > 3 && tier != "thorough" {
							continue
						}
						j := mkJob(".ZZ_C11_Restore", shellSetup, "exit", exit, "len", itoa(n), "mode", mode)
						j.Reach = []string{"left-readline|still-editing"}
						jobs = append(jobs, j)
					}
				}
			}
			// multi-line buffers (letters and newlines)
			mlens := []int{2, 3}
			if tier == "thorough" {
				mlens = []int{1, 2, 3, 4}
			}
			for _, exit := range []string{"accept", "hold", "abort", "comment", "panic"} {
				for _, n := range mlens {
					j := mkJob(".ZZ_C11_Restore", shellSetup, "exit", exit, "len", itoa(n), "mode", "emacs", "alpha", "nl")
					j.Reach = []string{"left-readline|still-editing"}
					jobs = append(jobs, j)
				}
			}
			return jobs
		},
		Assumptions: []string{
			"the terminal's initial mode settings are symbolic (the four flag words, VMIN, VTIME) and live in the ioctl stub; width is symbolic in [3,12] so that wrapped and exactly-filled rows occur; prompt '> '; buffer of lower-case letters of the job's length, cursor anywhere",
			"exit paths: accept-line, accept-and-hold, abort (Ctrl-C, and Ctrl-G: the same command called by another key), end-of-file (Ctrl-D on an empty line), insert-comment, a user-registered command that panics (recovered by the caller); in emacs, vi-insert and vi-command",
			"terminal output is interpreted by a VT100 model (cursor movement, CR/LF, erase, deferred autowrap, DECSCUSR) fed through the stdout stub; the display engine runs unstubbed; cursor-position queries are answered with the model's true cursor",
			"'a fresh row below the input' is read literally: column 0 of a row strictly below the last row of prompt + returned text on which nothing is printed (how many blank rows lie in between is not asserted)",
			"multi-line jobs: buffers of letters and newlines in emacs mode; further lines start on rows of their own under the first; labels carry the shape of the buffer (number of newlines, wraps, row exactly filled)",
		},
		Stubs:  []string{"tty ioctls (symbolic termios, symbolic width)", "stdin = zzverif.Script", "stdout -> zzverif.VT"},
		Bounds: map[string]string{"quick": "7 exit paths (abort by C-c and by C-g), buffer lengths {0,1,3,6}, width 3..12; buffers with newlines of length 2, 3", "thorough": "buffer lengths up to 13; with newlines up to 4"},
		Rule:   "one state per completed symbolic path (a path = a class of widths/cursor positions/termios values)",
		IgnoreKinds: []string{"hang", "deadlock", "spin"},
	}
}

func init() {
	checks["C04"] = &CheckDef{
		ID: "C04",
		Jobs: func(tier string, p *Program) []*Job {
			var jobs []*Job
			lens := [][2]int{{0, 1}, {1, 0}, {2, 4}, {4, 2}, {5, 5}, {7, 1}, {1, 7}, {8, 6}}
			if tier == "thorough" {
				lens = append(lens, [2]int{10, 3}, [2]int{3, 10}, [2]int{12, 12}, [2]int{14, 5}, [2]int{6, 16}, [2]int{18, 8})
			}
			for _, l := range lens {
				j := mkJob(".ZZ_C04_Screen", shellSetup, "n1", itoa(l[0]), "n2", itoa(l[1]))
				j.Reach = []string{"frame2"}
				jobs = append(jobs, j)
			}
			// buffers with embedded newlines, and with a double-width character
			small := [][2]int{{2, 1}}
			if tier == "thorough" {
				small = [][2]int{{2, 1}, {1, 2}, {2, 2}, {3, 2}}
			}
			for _, alpha := range []string{"nl", "wide"} {
				for _, l := range small {
					j := mkJob(".ZZ_C04_Screen", shellSetup, "n1", itoa(l[0]), "n2", itoa(l[1]), "alpha", alpha)
					j.Reach = []string{"frame2"}
					jobs = append(jobs, j)
				}
			}
			return jobs
		},
		Assumptions: []string{
			"terminal = VT100 model of the harness package (cursor movement, CR/LF, EL/ED, deferred autowrap) fed by the library's output; width symbolic in [3,10]; prompt '> '; buffers of lower-case letters (each one cell wide), cursor anywhere; two successive frames with different buffers (ghosting)",
			"the reference layout prints prompt + buffer into a second VT model of the same width; the cursor cell of position p is where the next character would be placed (column 0 of the next row after an exactly filled row)",
			"cursor-position queries are answered with the model's true cursor; the display engine runs unstubbed",
			"alphabet nl: letters and newline; a further line starts on a row of its own under the first (indent = prompt width, blank), the last line's indent holds the library's default secondary prompt; alphabet wide: letters and U+4E16 (two cells; a wide character that does not fit in the last cell of a row wraps early, as terminals do); uniseg.StringWidth is the engine's width model for such runes",
			"assertion labels carry the shape of the buffer(s) (number of newlines, some line wraps, a non-last line ends within 5 cells of the margin, wide character wraps early, row exactly filled, previous frame taller/shorter) so that each listed finding names the shapes it is about and every other shape keeps alarming",
		},
		Stubs:  []string{"tty ioctls (symbolic width)", "stdin = zzverif.Script", "stdout -> zzverif.VT", "uniseg.StringWidth = per-rune width model"},
		Bounds: map[string]string{"quick": "width 3..10, prompt '> ', two frames; letters: buffers up to 8; with newlines / with U+4E16: buffers of 2 then 1 characters", "thorough": "letters: buffers up to 18; with newlines / with U+4E16: buffers up to 3 then 2 characters"},
		Rule:   "one state per completed symbolic path (a path = a class of widths and cursor positions)",
		IgnoreKinds: []string{"panic", "hang", "deadlock", "spin"},
	}
}
