package main

// Cheap exact pre-solver reasoning: a cache of conditions already decided on this path and
// an unsigned-interval domain per symbol, both derived only from the path condition (so
// they are identical when a prefix is replayed).

type dom struct{ lo, hi uint64 }

type atom struct {
	sym     *Term
	op      Op // OpEq, OpUlt, OpUle, OpSlt, OpSle
	c       uint64
	cw      uint16 // width of the comparison
	symLeft bool
}

func symLike(t *Term) (*Term, bool) {
	if t.op == OpSym && t.w > 0 {
		return t, true
	}
	if (t.op == OpZext) && t.a.op == OpSym {
		return t.a, true
	}
	return nil, false
}

func atomOf(t *Term) (a atom, neg bool, ok bool) {
	if t.op == OpNot {
		neg = true
		t = t.a
	}
	switch t.op {
	case OpEq, OpUlt, OpUle, OpSlt, OpSle:
	default:
		return a, neg, false
	}
	if t.a.w == 0 {
		return a, neg, false
	}
	if s, ok1 := symLike(t.a); ok1 && t.b.isConst() {
		return atom{sym: s, op: t.op, c: t.b.k, cw: t.a.w, symLeft: true}, neg, true
	}
	if s, ok1 := symLike(t.b); ok1 && t.a.isConst() {
		return atom{sym: s, op: t.op, c: t.a.k, cw: t.b.w, symLeft: false}, neg, true
	}
	return a, neg, false
}

func (p *PathState) domOf(s *Term) *dom {
	if d, ok := p.doms[s]; ok {
		return d
	}
	d := &dom{0, mask(s.w)}
	p.doms[s] = d
	return d
}

// evalAtom decides an atom against the interval of its symbol, if possible.
func (p *PathState) evalAtom(a atom) (val, ok bool) {
	d := p.domOf(a.sym)
	lo, hi := d.lo, d.hi
	c := a.c
	op := a.op
	if op == OpSlt || op == OpSle {
		// only when the (possibly zero-extended) symbol is known non-negative in width cw
		half := uint64(1) << (a.cw - 1)
		if hi >= half {
			return false, false
		}
		if c >= half { // negative constant
			if a.symLeft {
				return false, true // s < negative: false
			}
			return true, true // negative < s
		}
		if op == OpSlt {
			op = OpUlt
		} else {
			op = OpUle
		}
	}
	switch op {
	case OpEq:
		if c < lo || c > hi {
			return false, true
		}
		if lo == hi {
			return true, true
		}
	case OpUlt:
		if a.symLeft {
			if hi < c {
				return true, true
			}
			if lo >= c {
				return false, true
			}
		} else {
			if c < lo {
				return true, true
			}
			if c >= hi {
				return false, true
			}
		}
	case OpUle:
		if a.symLeft {
			if hi <= c {
				return true, true
			}
			if lo > c {
				return false, true
			}
		} else {
			if c <= lo {
				return true, true
			}
			if c > hi {
				return false, true
			}
		}
	}
	return false, false
}

// learnAtom narrows the interval from an atom known to hold (neg: known not to hold).
func (p *PathState) learnAtom(a atom, neg bool) {
	d := p.domOf(a.sym)
	c := a.c
	op := a.op
	symLeft := a.symLeft
	if neg {
		// not(s < c) = c <= s ; not(s <= c) = c < s ; not(c < s) = s <= c ; not(c <= s) = s < c
		switch op {
		case OpUlt:
			op, symLeft = OpUle, !symLeft
		case OpUle:
			op, symLeft = OpUlt, !symLeft
		case OpSlt:
			op, symLeft = OpSle, !symLeft
		case OpSle:
			op, symLeft = OpSlt, !symLeft
		case OpEq:
			if c == d.lo && d.lo < d.hi {
				d.lo++
			} else if c == d.hi && d.lo < d.hi {
				d.hi--
			}
			return
		}
	}
	if op == OpSlt || op == OpSle {
		half := uint64(1) << (a.cw - 1)
		if c >= half {
			return // negative constants: nothing learnt as an unsigned interval
		}
		if !symLeft {
			// c <(=) s with c >= 0: s is non-negative (within width cw)
			if d.hi >= half {
				d.hi = half - 1
			}
		} else if d.hi >= half {
			return // s <(=) c but s may be negative
		}
		if op == OpSlt {
			op = OpUlt
		} else {
			op = OpUle
		}
	}
	switch op {
	case OpEq:
		if c >= d.lo && c <= d.hi {
			d.lo, d.hi = c, c
		}
	case OpUlt:
		if symLeft {
			if c > 0 && c-1 < d.hi {
				d.hi = c - 1
			}
		} else if c+1 > d.lo && c+1 != 0 {
			d.lo = c + 1
		}
	case OpUle:
		if symLeft {
			if c < d.hi {
				d.hi = c
			}
		} else if c > d.lo {
			d.lo = c
		}
	}
	if d.lo > d.hi { // contradictory facts can only arise on an infeasible path; reset
		d.lo, d.hi = 0, mask(a.sym.w)
	}
}

// learn records a term known to be true.
func (p *PathState) learn(t *Term) {
	if t.op == OpAnd {
		p.learn(t.a)
		p.learn(t.b)
		return
	}
	if t.op == OpNot && t.a.op == OpOr {
		// not(a or b): both false — handled through known only
		p.known[t.a.a] = false
		p.known[t.a.b] = false
	}
	if t.op == OpNot {
		p.known[t.a] = false
	} else {
		p.known[t] = true
		if t.op == OpOr {
			p.ors = append(p.ors, t)
		}
	}
	if a, neg, ok := atomOf(t); ok {
		p.learnAtom(a, neg)
	}
}

// quick decides a condition without the solver when the path condition settles it.
func (p *PathState) quick(t *Term) (val, ok bool) {
	if v, ok := p.known[t]; ok {
		return v, true
	}
	if t.op == OpNot {
		if v, ok := p.known[t.a]; ok {
			return !v, true
		}
	}
	if a, neg, ok := atomOf(t); ok {
		if v, ok := p.evalAtom(a); ok {
			return v != neg, true
		}
	}
	// unit propagation through disjunctions known to hold: (a or t) with a false => t
	if !p.inOrs {
		p.inOrs = true
		defer func() { p.inOrs = false }()
		for _, o := range p.ors {
			if o.b == t {
				if v, ok := p.quick(o.a); ok && !v {
					return true, true
				}
			}
			if o.a == t {
				if v, ok := p.quick(o.b); ok && !v {
					return true, true
				}
			}
		}
	}
	switch t.op {
	case OpAnd:
		va, oka := p.quick(t.a)
		vb, okb := p.quick(t.b)
		if (oka && !va) || (okb && !vb) {
			return false, true
		}
		if oka && okb {
			return true, true
		}
	case OpOr:
		va, oka := p.quick(t.a)
		vb, okb := p.quick(t.b)
		if (oka && va) || (okb && vb) {
			return true, true
		}
		if oka && okb {
			return false, true
		}
	case OpNot:
		if v, ok := p.quick(t.a); ok {
			return !v, true
		}
	}
	return false, false
}
