package main

// Environment model: terminal, files, users, regexp and sort bridges.

import (
	"fmt"
	"go/token"
	"go/types"
	"reflect"
	"regexp"
	"sort"

	"golang.org/x/tools/go/ssa"
)

type Env struct {
	m           *Machine
	termios     Tuple // current termios of the fake tty (slots of unix.Termios)
	termiosInit Tuple
	nwrites     int
}

func newEnv(m *Machine) *Env { return &Env{m: m} }

func (e *Env) reset() {
	e.termios = nil
	e.termiosInit = nil
	e.nwrites = 0
}

// write delivers output to the harness's stdout hook, if any.
func (e *Env) write(c *frame, fd int, s Str) {
	m := e.m
	e.nwrites++
	hook, _ := m.getGlobal(zzPath, "StdoutHook").(*Closure)
	if hook == nil {
		return
	}
	m.call(c, hook, []Value{mkInt(64, uint64(fd)), s}, 0)
}

func fileFD(v Value) (int, bool) {
	p, ok := v.(Ptr)
	if !ok || p.o == nil {
		return 0, false
	}
	fd, ok := p.o.nat.(int)
	return fd, ok
}

func registerEnvIntrinsics(reg func(string, intrinsicFn)) {
	reg("(*os.File).Fd", func(m *Machine, _ *frame, _ *ssa.Function, a []Value) (Value, bool) {
		fd, _ := fileFD(a[0])
		return mkInt(64, uint64(fd)), true
	})
	reg("(*os.File).Write", func(m *Machine, c *frame, _ *ssa.Function, a []Value) (Value, bool) {
		fd, ok := fileFD(a[0])
		if !ok {
			m.unsupported("write to a real file")
		}
		s := m.sliceToStr(a[1].(Slice))
		m.env.write(c, fd, s)
		return Tuple{mkInt(64, uint64(len(s.S))), Iface{}}, true
	})
	reg("(*os.File).WriteString", func(m *Machine, c *frame, _ *ssa.Function, a []Value) (Value, bool) {
		fd, ok := fileFD(a[0])
		if !ok {
			m.unsupported("write to a real file")
		}
		s := argStr(a[1])
		m.env.write(c, fd, s)
		return Tuple{mkInt(64, uint64(len(s.S))), Iface{}}, true
	})
	reg("(*os.File).Read", func(m *Machine, c *frame, fn *ssa.Function, a []Value) (Value, bool) {
		fd, ok := fileFD(a[0])
		if !ok || fd != 0 {
			m.unsupported("read from a file other than stdin")
		}
		hook, _ := m.getGlobal(zzPath, "StdinHook").(*Closure)
		if hook == nil {
			panic(pathEnd{kind: "blocked", msg: "os.Stdin.Read with no StdinHook"})
		}
		return m.call(c, hook, []Value{a[1]}, 0), true
	})
	reg("(*os.File).Close", func(m *Machine, c *frame, fn *ssa.Function, a []Value) (Value, bool) {
		return Iface{}, true
	})
	reg("(*os.File).Name", func(m *Machine, c *frame, fn *ssa.Function, a []Value) (Value, bool) {
		return Str{S: "/dev/tty"}, true
	})
	reg("os.Getenv", func(m *Machine, c *frame, fn *ssa.Function, a []Value) (Value, bool) {
		k := m.strConcrete(argStr(a[0]))
		if hook, _ := m.getGlobal(zzPath, "GetenvHook").(*Closure); hook != nil {
			return m.call(c, hook, []Value{Str{S: k}}, 0), true
		}
		switch k {
		case "TERM":
			return Str{S: "xterm"}, true
		}
		return Str{}, true
	})
	reg("os.LookupEnv", func(m *Machine, c *frame, fn *ssa.Function, a []Value) (Value, bool) {
		return Tuple{Str{}, BoolV{C: false}}, true
	})
	notExist := func(m *Machine, _ *frame, fn *ssa.Function, a []Value) (Value, bool) {
		res := fn.Signature.Results()
		err := m.getGlobal("io/fs", "ErrNotExist")
		if res.Len() == 1 {
			return err, true
		}
		out := make(Tuple, res.Len())
		for i := 0; i < res.Len()-1; i++ {
			out[i] = m.zero(res.At(i).Type())
		}
		out[res.Len()-1] = err
		return out, true
	}
	for _, n := range []string{"os.Open", "os.OpenFile", "os.Create", "os.ReadFile", "os.Stat", "os.Lstat", "os.Remove", "os.ReadDir", "os.Mkdir", "os.MkdirAll", "os.WriteFile"} {
		reg(n, notExist)
	}
	reg("os.TempDir", func(m *Machine, c *frame, fn *ssa.Function, a []Value) (Value, bool) {
		return Str{S: "/tmp"}, true
	})
	reg("os.UserHomeDir", func(m *Machine, c *frame, fn *ssa.Function, a []Value) (Value, bool) {
		return Tuple{Str{S: "/nonexistent"}, Iface{}}, true
	})
	reg("os/user.Current", func(m *Machine, c *frame, fn *ssa.Function, a []Value) (Value, bool) {
		ut := m.namedType("os/user", "User")
		p := m.allocType(ut)
		l := m.layoutOf(ut)
		// Uid, Gid, Username, Name, HomeDir
		p.o.slots[l.fields[0]] = Str{S: "1000"}
		p.o.slots[l.fields[1]] = Str{S: "1000"}
		p.o.slots[l.fields[2]] = Str{S: "user"}
		p.o.slots[l.fields[3]] = Str{S: "user"}
		p.o.slots[l.fields[4]] = Str{S: "/nonexistent"}
		return Tuple{p, Iface{}}, true
	})
	reg("(*"+repoPath+"/internal/editor.Buffers).EditBuffer", func(m *Machine, c *frame, fn *ssa.Function, a []Value) (Value, bool) {
		// the external editor (os/exec, temp files) is outside every claim: the path ends here
		panic(pathEnd{kind: "out-of-scope", msg: "external editor command"})
	})
	reg("os/exec.Command", func(m *Machine, c *frame, fn *ssa.Function, a []Value) (Value, bool) {
		m.unsupported("os/exec (external editor) is outside every claim")
		return nil, true
	})
	// tty
	reg("golang.org/x/sys/unix.IoctlGetTermios", func(m *Machine, c *frame, fn *ssa.Function, a []Value) (Value, bool) {
		tt := m.namedType("golang.org/x/sys/unix", "Termios")
		p := m.allocType(tt)
		if hook, _ := m.getGlobal(zzPath, "TermiosGetHook").(*Closure); hook != nil {
			r := m.call(c, hook, []Value{a[0]}, 0).(Tuple)
			// hook returns (*unix.Termios, error)
			return r, true
		}
		if m.env.termios != nil {
			copy(p.o.slots, m.env.termios)
		}
		return Tuple{p, Iface{}}, true
	})
	reg("golang.org/x/sys/unix.IoctlSetTermios", func(m *Machine, c *frame, fn *ssa.Function, a []Value) (Value, bool) {
		if hook, _ := m.getGlobal(zzPath, "TermiosSetHook").(*Closure); hook != nil {
			return m.call(c, hook, []Value{a[0], a[2]}, 0), true
		}
		p := a[2].(Ptr)
		tt := m.namedType("golang.org/x/sys/unix", "Termios")
		m.env.termios = m.load(p, tt).(Tuple)
		return Iface{}, true
	})
	reg(zzPath+".SymbolicTermios", func(m *Machine, c *frame, fn *ssa.Function, a []Value) (Value, bool) {
		tt := m.namedType("golang.org/x/sys/unix", "Termios")
		l := m.layoutOf(tt)
		slots := Tuple(m.zeroInto(nil, tt))
		// Iflag, Oflag, Cflag, Lflag, Line, Cc[..], Ispeed, Ospeed
		for i, name := range []string{"tio.iflag", "tio.oflag", "tio.cflag", "tio.lflag"} {
			slots[l.fields[i]] = m.fromTerm(m.fresh(name, 32))
		}
		ccOff := l.fields[5]
		slots[ccOff+6] = m.fromTerm(m.fresh("tio.vmin", 8))  // VMIN = 6
		slots[ccOff+5] = m.fromTerm(m.fresh("tio.vtime", 8)) // VTIME = 5
		m.env.termios = slots
		m.env.termiosInit = append(Tuple(nil), slots...)
		return nil, true
	})
	reg(zzPath+".TermiosRestored", func(m *Machine, c *frame, fn *ssa.Function, a []Value) (Value, bool) {
		tt := m.namedType("golang.org/x/sys/unix", "Termios")
		cur, init := m.env.termios, m.env.termiosInit
		if cur == nil {
			cur = Tuple(m.zeroInto(nil, tt))
		}
		if init == nil {
			init = Tuple(m.zeroInto(nil, tt))
		}
		return m.equalVals(cur, init), true
	})
	reg("golang.org/x/sys/unix.IoctlGetWinsize", func(m *Machine, c *frame, fn *ssa.Function, a []Value) (Value, bool) {
		wt := m.namedType("golang.org/x/sys/unix", "Winsize")
		p := m.allocType(wt)
		cols, rows := Value(mkInt(16, 80)), Value(mkInt(16, 24))
		if hook, _ := m.getGlobal(zzPath, "WinsizeHook").(*Closure); hook != nil {
			r := m.call(c, hook, nil, 0).(Tuple)
			cols = m.convert(types.Typ[types.Int], types.Typ[types.Uint16], r[0])
			rows = m.convert(types.Typ[types.Int], types.Typ[types.Uint16], r[1])
		}
		p.o.slots[0] = rows
		p.o.slots[1] = cols
		return Tuple{p, Iface{}}, true
	})
	reg("github.com/rivo/uniseg.StringWidth", func(m *Machine, c *frame, fn *ssa.Function, a []Value) (Value, bool) {
		s := argStr(a[0])
		if s.Sym == nil {
			return mkInt(64, uint64(stringWidthNative(s.S))), true
		}
		return m.symStringWidth(s), true
	})
}

// ---------------------------------------------------------------------------
// regexp: compiled natively, opaque objects; symbolic subjects are concretised.

func registerRegexpIntrinsics(reg func(string, intrinsicFn)) {
	reg("regexp.QuoteMeta", func(m *Machine, c *frame, fn *ssa.Function, a []Value) (Value, bool) {
		s := argStr(a[0])
		if s.Sym == nil {
			return Str{S: regexp.QuoteMeta(s.S)}, true
		}
		// symbolic text: keep it unquoted and remember that it is to be matched literally
		s.Lit = true
		return s, true
	})
	compile := func(must bool) intrinsicFn {
		return func(m *Machine, c *frame, fn *ssa.Function, a []Value) (Value, bool) {
			pat := argStr(a[0])
			if pat.Lit {
				o := m.newObj(0, "regexp-literal")
				pat.Lit = false
				o.nat = &litRegex{pat: pat}
				if must {
					return Ptr{o, 0}, true
				}
				return Tuple{Ptr{o, 0}, Iface{}}, true
			}
			if pat.Sym != nil {
				pat = m.concretizeValue(pat).(Str)
			}
			re, err := regexp.Compile(pat.S)
			if err != nil {
				if must {
					panic(&goPanic{v: Iface{t: types.Typ[types.String], v: Str{S: "regexp: Compile(" + pat.S + "): " + err.Error()}}, stack: m.where(c)})
				}
				return Tuple{Ptr{}, m.newError(Str{S: err.Error()})}, true
			}
			o := m.newObj(0, "regexp")
			o.nat = re
			if must {
				return Ptr{o, 0}, true
			}
			return Tuple{Ptr{o, 0}, Iface{}}, true
		}
	}
	reg("regexp.MustCompile", compile(true))
	reg("regexp.Compile", compile(false))
	reg("regexp.MatchString", func(m *Machine, c *frame, fn *ssa.Function, a []Value) (Value, bool) {
		pat := m.concretizeValue(argStr(a[0])).(Str)
		if argStr(a[1]).Sym != nil {
			if re, err := regexp.Compile(pat.S); err == nil {
				if v, ok := m.symRegexpCall(re, "MatchString", fn, a[1:]); ok {
					return Tuple{v, Iface{}}, true
				}
			}
		}
		s := m.concretizeValue(argStr(a[1])).(Str)
		ok, err := regexp.MatchString(pat.S, s.S)
		if err != nil {
			return Tuple{BoolV{C: false}, m.newError(Str{S: err.Error()})}, true
		}
		return Tuple{BoolV{C: ok}, Iface{}}, true
	})
	// generic method bridge via reflection
	meth := func(name string) {
		reg("(*regexp.Regexp)."+name, func(m *Machine, c *frame, fn *ssa.Function, a []Value) (Value, bool) {
			p := a[0].(Ptr)
			if p.o == nil {
				m.goPanicRuntime("nil *regexp.Regexp")
			}
			if lit, ok := p.o.nat.(*litRegex); ok {
				return m.litRegexCall(lit, name, a[1:])
			}
			re := p.o.nat.(*regexp.Regexp)
			if len(a) > 1 && !deepConcrete(a[1]) {
				if v, ok := m.symRegexpCall(re, name, fn, a[1:]); ok {
					return v, true
				}
			}
			mv := reflect.ValueOf(re).MethodByName(name)
			mt := mv.Type()
			in := make([]reflect.Value, mt.NumIn())
			for i := range in {
				arg := m.concretizeValue(a[i+1])
				v, ok := m.toNative(arg, mt.In(i))
				if !ok {
					m.unsupported("regexp.%s: cannot convert argument %d (%T)", name, i, arg)
				}
				in[i] = v
			}
			out := mv.Call(in)
			res := fn.Signature.Results()
			if len(out) == 0 {
				return nil, true
			}
			if len(out) == 1 {
				return m.fromNativeDeep(out[0], res.At(0).Type()), true
			}
			tup := make(Tuple, len(out))
			for i := range out {
				tup[i] = m.fromNativeDeep(out[i], res.At(i).Type())
			}
			return tup, true
		})
	}
	for _, n := range []string{"FindAll", "FindAllStringIndex", "FindAllStringSubmatch", "FindAllStringSubmatchIndex",
		"FindString", "FindStringIndex", "Match", "MatchString", "ReplaceAll", "ReplaceAllLiteralString",
		"ReplaceAllString", "FindStringSubmatch", "FindAllString", "String", "FindIndex", "FindAllIndex", "NumSubexp"} {
		meth(n)
	}
}

// fromNativeDeep handles nested slices ([][]string, [][]int, [][]byte).
func (m *Machine) fromNativeDeep(rv reflect.Value, t types.Type) Value {
	if st, ok := t.Underlying().(*types.Slice); ok {
		if _, nested := st.Elem().Underlying().(*types.Slice); nested {
			if rv.IsNil() {
				return Slice{es: 1}
			}
			n := rv.Len()
			sl := m.makeSlice(st.Elem(), n, n)
			for i := 0; i < n; i++ {
				sl.o.slots[i] = m.fromNativeDeep(rv.Index(i), st.Elem())
			}
			return sl
		}
	}
	return m.fromNative(rv, t)
}

// ---------------------------------------------------------------------------
// sort: the real algorithm drives interpreted comparison callbacks.

type sortAdapter struct {
	n    int
	less func(i, j int) bool
	swap func(i, j int)
}

func (s sortAdapter) Len() int           { return s.n }
func (s sortAdapter) Less(i, j int) bool { return s.less(i, j) }
func (s sortAdapter) Swap(i, j int)      { s.swap(i, j) }

func (m *Machine) swapElems(sl Slice, i, j int) {
	for k := 0; k < sl.es; k++ {
		a, b := sl.off+i*sl.es+k, sl.off+j*sl.es+k
		va, vb := sl.o.slots[a], sl.o.slots[b]
		m.storeSlot(sl.o, a, vb)
		m.storeSlot(sl.o, b, va)
	}
}

func registerSortIntrinsics(reg func(string, intrinsicFn)) {
	i64 := func(n int) Value { return boxInt(64, uint64(int64(n))) }
	sliceSort := func(stable bool) intrinsicFn {
		return func(m *Machine, c *frame, fn *ssa.Function, a []Value) (Value, bool) {
			iv := a[0].(Iface)
			sl, ok := iv.v.(Slice)
			if !ok {
				m.unsupported("sort.Slice on %T", iv.v)
			}
			ad := sortAdapter{n: sl.len,
				less: func(i, j int) bool {
					r := m.call(c, a[1], []Value{i64(i), i64(j)}, 0).(BoolV)
					return m.branch(r, "sort-less")
				},
				swap: func(i, j int) { m.swapElems(sl, i, j) }}
			if stable {
				sort.Stable(ad)
			} else {
				sort.Sort(ad)
			}
			return nil, true
		}
	}
	reg("sort.Slice", sliceSort(false))
	reg("sort.SliceStable", sliceSort(true))
	reg("sort.Strings", func(m *Machine, c *frame, fn *ssa.Function, a []Value) (Value, bool) {
		sl := a[0].(Slice)
		sort.Sort(sortAdapter{n: sl.len,
			less: func(i, j int) bool {
				x, y := sl.o.slots[sl.off+i].(Str), sl.o.slots[sl.off+j].(Str)
				return m.branch(m.strLess(x, y, false), "sort.Strings")
			},
			swap: func(i, j int) { m.swapElems(sl, i, j) }})
		return nil, true
	})
	reg("sort.Ints", func(m *Machine, c *frame, fn *ssa.Function, a []Value) (Value, bool) {
		sl := a[0].(Slice)
		sort.Sort(sortAdapter{n: sl.len,
			less: func(i, j int) bool {
				x, y := sl.o.slots[sl.off+i].(BV), sl.o.slots[sl.off+j].(BV)
				return m.branch(m.intBinop(token.LSS, true, x, y).(BoolV), "sort.Ints")
			},
			swap: func(i, j int) { m.swapElems(sl, i, j) }})
		return nil, true
	})
	iface := func(stable bool) intrinsicFn {
		return func(m *Machine, c *frame, fn *ssa.Function, a []Value) (Value, bool) {
			iv := a[0].(Iface)
			lenF, lessF, swapF := m.methodOf(iv.t, "Len"), m.methodOf(iv.t, "Less"), m.methodOf(iv.t, "Swap")
			n := int(m.concreteInt(m.callSSA(c, lenF, []Value{iv.v}, nil).(BV), "sort.Len"))
			ad := sortAdapter{n: n,
				less: func(i, j int) bool {
					return m.branch(m.callSSA(c, lessF, []Value{iv.v, i64(i), i64(j)}, nil).(BoolV), "sort-less")
				},
				swap: func(i, j int) { m.callSSA(c, swapF, []Value{iv.v, i64(i), i64(j)}, nil) }}
			if stable {
				sort.Stable(ad)
			} else {
				sort.Sort(ad)
			}
			return nil, true
		}
	}
	reg("sort.Sort", iface(false))
	reg("sort.Stable", iface(true))
}

var _ = fmt.Sprint

// litRegex is Compile(QuoteMeta(x)) for symbolic x: a literal substring matcher.
type litRegex struct{ pat Str }

func (m *Machine) litRegexCall(lit *litRegex, name string, a []Value) (Value, bool) {
	subj := func() Str {
		switch x := a[0].(type) {
		case Str:
			return x
		case Slice:
			return m.sliceToStr(x)
		}
		m.unsupported("literal regexp: subject %T", a[0])
		return Str{}
	}
	switch name {
	case "MatchString", "Match":
		return BoolV{C: m.strIndex(subj(), lit.pat) >= 0}, true
	case "FindStringIndex", "FindIndex":
		i := m.strIndex(subj(), lit.pat)
		if i < 0 {
			return Slice{es: 1}, true
		}
		return m.intsSlice([]int{i, i + len(lit.pat.S)}), true
	case "FindString":
		s := subj()
		i := m.strIndex(s, lit.pat)
		if i < 0 {
			return Str{}, true
		}
		return s.slice(i, i+len(lit.pat.S)), true
	case "String":
		return lit.pat, true
	}
	m.unsupported("literal regexp: method %s", name)
	return nil, true
}
