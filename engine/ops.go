package main

// Operators, conversions, slices, strings, maps, channels, builtins.

import (
	"fmt"
	"go/token"
	"go/types"
	"math"
	"unicode/utf8"

	"golang.org/x/tools/go/ssa"
)

func isSigned(t types.Type) bool {
	if b, ok := t.Underlying().(*types.Basic); ok {
		_, s := intWidth(b)
		return s
	}
	return false
}

func (m *Machine) unop(fr *frame, in *ssa.UnOp, x Value) Value {
	switch in.Op {
	case token.MUL: // load
		return m.load(x.(Ptr), in.Type())
	case token.SUB:
		switch v := x.(type) {
		case BV:
			if v.T == nil {
				return boxInt(v.W, -v.C)
			}
			return m.fromTerm(m.tc.Neg(v.T))
		case F64:
			return -v
		case Complex:
			return -v
		}
	case token.NOT:
		v := x.(BoolV)
		if v.T == nil {
			return boxBool(!v.C)
		}
		return m.fromTerm(m.tc.Not(v.T))
	case token.XOR:
		v := x.(BV)
		if v.T == nil {
			return boxInt(v.W, ^v.C)
		}
		return m.fromTerm(m.tc.BNot(v.T))
	case token.ARROW:
		ch, _ := x.(*ChanObj)
		v, ok := m.chanRecv(ch, in.X.Type().Underlying().(*types.Chan).Elem())
		if in.CommaOk {
			return Tuple{v, BoolV{C: ok}}
		}
		return v
	}
	panic(fmt.Sprintf("unop %v on %T", in.Op, x))
}

func (m *Machine) binop(op token.Token, xt types.Type, x, y Value) Value {
	switch a := x.(type) {
	case BV:
		b, ok := y.(BV)
		if !ok {
			panic(fmt.Sprintf("binop %v: BV vs %T", op, y))
		}
		return m.intBinop(op, isSigned(xt), a, b)
	case BoolV:
		b := y.(BoolV)
		switch op {
		case token.EQL:
			return m.equalVals(a, b)
		case token.NEQ:
			return m.notB(m.equalVals(a, b))
		case token.AND:
			return m.fromTerm(m.tc.And(m.boolTerm(a), m.boolTerm(b)))
		case token.OR:
			return m.fromTerm(m.tc.Or(m.boolTerm(a), m.boolTerm(b)))
		}
	case Str:
		b := y.(Str)
		switch op {
		case token.ADD:
			return concatStr(a, b)
		case token.EQL:
			return m.strEq(a, b)
		case token.NEQ:
			return m.notB(m.strEq(a, b))
		case token.LSS:
			return m.strLess(a, b, false)
		case token.LEQ:
			return m.strLess(a, b, true)
		case token.GTR:
			return m.strLess(b, a, false)
		case token.GEQ:
			return m.strLess(b, a, true)
		}
	case F64:
		b := y.(F64)
		switch op {
		case token.ADD:
			return a + b
		case token.SUB:
			return a - b
		case token.MUL:
			return a * b
		case token.QUO:
			return a / b
		case token.EQL:
			return boxBool(a == b)
		case token.NEQ:
			return boxBool(a != b)
		case token.LSS:
			return boxBool(a < b)
		case token.LEQ:
			return boxBool(a <= b)
		case token.GTR:
			return boxBool(a > b)
		case token.GEQ:
			return boxBool(a >= b)
		}
	default:
		switch op {
		case token.EQL:
			return m.equalVals(x, y)
		case token.NEQ:
			return m.notB(m.equalVals(x, y))
		}
	}
	panic(fmt.Sprintf("binop %v on %T, %T", op, x, y))
}

func (m *Machine) notB(b BoolV) BoolV {
	if b.T == nil {
		return BoolV{C: !b.C}
	}
	return m.fromTerm(m.tc.Not(b.T)).(BoolV)
}

func (m *Machine) intBinop(op token.Token, signed bool, a, b BV) Value {
	w := a.W
	if a.T == nil && b.T == nil {
		x, y := a.C, b.C
		switch op {
		case token.ADD:
			return boxInt(w, x+y)
		case token.SUB:
			return boxInt(w, x-y)
		case token.MUL:
			return boxInt(w, x*y)
		case token.QUO, token.REM:
			if y == 0 {
				m.goPanicRuntime("integer divide by zero")
			}
			o := OpUDiv
			if signed && op == token.QUO {
				o = OpSDiv
			} else if signed {
				o = OpSRem
			} else if op == token.REM {
				o = OpURem
			}
			r, _ := foldBin(o, uint16(w), x, y)
			return boxInt(w, r)
		case token.AND:
			return boxInt(w, x&y)
		case token.OR:
			return boxInt(w, x|y)
		case token.XOR:
			return boxInt(w, x^y)
		case token.AND_NOT:
			return boxInt(w, x&^y)
		case token.SHL:
			if b.W != 0 && sext(y, uint16(b.W)) < 0 && false {
			}
			if y >= uint64(w) {
				return boxInt(w, 0)
			}
			return boxInt(w, x<<y)
		case token.SHR:
			if signed {
				if y >= uint64(w) {
					y = uint64(w) - 1
				}
				return boxInt(w, uint64(sext(x, uint16(w))>>y))
			}
			if y >= uint64(w) {
				return boxInt(w, 0)
			}
			return boxInt(w, x>>y)
		case token.EQL:
			return boxBool(x == y)
		case token.NEQ:
			return boxBool(x != y)
		case token.LSS, token.LEQ, token.GTR, token.GEQ:
			var lt, eq bool
			if signed {
				lt = sext(x, uint16(w)) < sext(y, uint16(w))
			} else {
				lt = x < y
			}
			eq = x == y
			switch op {
			case token.LSS:
				return boxBool(lt)
			case token.LEQ:
				return boxBool(lt || eq)
			case token.GTR:
				return boxBool(!lt && !eq)
			default:
				return boxBool(!lt)
			}
		}
		panic("intBinop const " + op.String())
	}
	tc := m.tc
	ta, tb := m.bvTerm(a), m.bvTerm(b)
	switch op {
	case token.SHL, token.SHR:
		// shift count may have another width
		if b.W != w {
			if b.W > w {
				lim := tc.Const(uint16(b.W), uint64(w))
				tb = tc.Ite(tc.Cmp(OpUlt, tb, lim), tc.Extract(tb, int(w)-1, 0), tc.Const(uint16(w), uint64(w)))
			} else {
				tb = tc.Zext(tb, uint16(w))
			}
		}
		o := OpShl
		if op == token.SHR {
			o = OpLshr
			if signed {
				o = OpAshr
			}
		}
		return m.fromTerm(tc.Bin(o, ta, tb))
	}
	if a.W != b.W {
		panic(fmt.Sprintf("intBinop width mismatch %d %d for %v", a.W, b.W, op))
	}
	switch op {
	case token.ADD:
		return m.fromTerm(tc.Bin(OpAdd, ta, tb))
	case token.SUB:
		return m.fromTerm(tc.Bin(OpSub, ta, tb))
	case token.MUL:
		return m.fromTerm(tc.Bin(OpMul, ta, tb))
	case token.QUO, token.REM:
		if b.T != nil {
			if m.branch(m.fromTerm(tc.Eq(tb, tc.Const(uint16(w), 0))).(BoolV), "divzero") {
				m.goPanicRuntime("integer divide by zero")
			}
		} else if b.C == 0 {
			m.goPanicRuntime("integer divide by zero")
		}
		o := OpUDiv
		switch {
		case signed && op == token.QUO:
			o = OpSDiv
		case signed:
			o = OpSRem
		case op == token.REM:
			o = OpURem
		}
		return m.fromTerm(tc.Bin(o, ta, tb))
	case token.AND:
		return m.fromTerm(tc.Bin(OpBAnd, ta, tb))
	case token.OR:
		return m.fromTerm(tc.Bin(OpBOr, ta, tb))
	case token.XOR:
		return m.fromTerm(tc.Bin(OpBXor, ta, tb))
	case token.AND_NOT:
		return m.fromTerm(tc.Bin(OpBAnd, ta, tc.BNot(tb)))
	case token.EQL:
		return m.fromTerm(tc.Eq(ta, tb))
	case token.NEQ:
		return m.fromTerm(tc.Not(tc.Eq(ta, tb)))
	case token.LSS:
		if signed {
			return m.fromTerm(tc.Cmp(OpSlt, ta, tb))
		}
		return m.fromTerm(tc.Cmp(OpUlt, ta, tb))
	case token.LEQ:
		if signed {
			return m.fromTerm(tc.Cmp(OpSle, ta, tb))
		}
		return m.fromTerm(tc.Cmp(OpUle, ta, tb))
	case token.GTR:
		if signed {
			return m.fromTerm(tc.Cmp(OpSlt, tb, ta))
		}
		return m.fromTerm(tc.Cmp(OpUlt, tb, ta))
	case token.GEQ:
		if signed {
			return m.fromTerm(tc.Cmp(OpSle, tb, ta))
		}
		return m.fromTerm(tc.Cmp(OpUle, tb, ta))
	}
	panic("intBinop " + op.String())
}

func (m *Machine) strEq(a, b Str) BoolV {
	if len(a.S) != len(b.S) {
		return BoolV{C: false}
	}
	if a.Sym == nil && b.Sym == nil {
		return BoolV{C: a.S == b.S}
	}
	acc := m.tc.tt
	for i := 0; i < len(a.S); i++ {
		x, y := a.byteAt(i), b.byteAt(i)
		if x.T == nil && y.T == nil {
			if x.C != y.C {
				return BoolV{C: false}
			}
			continue
		}
		acc = m.tc.And(acc, m.tc.Eq(m.bvTerm(x), m.bvTerm(y)))
	}
	return m.fromTerm(acc).(BoolV)
}

// strLess: a < b (or a <= b with orEq) lexicographically.
func (m *Machine) strLess(a, b Str, orEq bool) BoolV {
	if a.Sym == nil && b.Sym == nil {
		if orEq {
			return BoolV{C: a.S <= b.S}
		}
		return BoolV{C: a.S < b.S}
	}
	n := len(a.S)
	if len(b.S) < n {
		n = len(b.S)
	}
	// tail: all common bytes equal
	var tail *Term
	if len(a.S) < len(b.S) {
		tail = m.tc.tt
	} else if len(a.S) == len(b.S) {
		tail = m.tc.BoolC(orEq)
	} else {
		tail = m.tc.ff
	}
	acc := tail
	for i := n - 1; i >= 0; i-- {
		x, y := m.bvTerm(a.byteAt(i)), m.bvTerm(b.byteAt(i))
		acc = m.tc.Ite(m.tc.Eq(x, y), acc, m.tc.Cmp(OpUlt, x, y))
	}
	return m.fromTerm(acc).(BoolV)
}

func (m *Machine) equalVals(x, y Value) BoolV {
	switch a := x.(type) {
	case BV:
		b := y.(BV)
		if a.T == nil && b.T == nil {
			return BoolV{C: a.C == b.C}
		}
		return m.fromTerm(m.tc.Eq(m.bvTerm(a), m.bvTerm(b))).(BoolV)
	case BoolV:
		b := y.(BoolV)
		if a.T == nil && b.T == nil {
			return BoolV{C: a.C == b.C}
		}
		return m.fromTerm(m.tc.Eq(m.boolTerm(a), m.boolTerm(b))).(BoolV)
	case Str:
		return m.strEq(a, y.(Str))
	case F64:
		return BoolV{C: a == y.(F64)}
	case Complex:
		return BoolV{C: a == y.(Complex)}
	case Ptr:
		b := y.(Ptr)
		return BoolV{C: a.o == b.o && (a.o == nil || a.off == b.off)}
	case Slice:
		b := y.(Slice)
		if a.o == nil || b.o == nil {
			return BoolV{C: a.o == nil && b.o == nil}
		}
		panic("slice comparison")
	case *MapObj:
		b, _ := y.(*MapObj)
		return BoolV{C: a == b}
	case *ChanObj:
		b, _ := y.(*ChanObj)
		return BoolV{C: a == b}
	case *Closure:
		b, _ := y.(*Closure)
		return BoolV{C: a == b}
	case Iface:
		b := y.(Iface)
		if a.t == nil || b.t == nil {
			return BoolV{C: a.t == nil && b.t == nil}
		}
		if !types.Identical(a.t, b.t) {
			return BoolV{C: false}
		}
		if !types.Comparable(a.t) {
			m.goPanicRuntime("comparing uncomparable type " + a.t.String())
		}
		return m.equalVals(a.v, b.v)
	case Tuple:
		b := y.(Tuple)
		acc := m.tc.tt
		for i := range a {
			e := m.equalVals(a[i], b[i])
			if e.T == nil {
				if !e.C {
					return BoolV{C: false}
				}
				continue
			}
			acc = m.tc.And(acc, e.T)
		}
		return m.fromTerm(acc).(BoolV)
	case nil:
		return BoolV{C: y == nil}
	}
	panic(fmt.Sprintf("equalVals %T %T", x, y))
}

// ---------------------------------------------------------------------------
// UTF-8

func (m *Machine) encodeRune(r BV) []BV {
	if r.T == nil {
		var buf [4]byte
		n := utf8.EncodeRune(buf[:], rune(int32(uint32(r.C))))
		out := make([]BV, n)
		for i := 0; i < n; i++ {
			out[i] = mkInt(8, uint64(buf[i]))
		}
		return out
	}
	tc := m.tc
	u := r.T
	if u.w != 32 {
		// conversions from other widths: Go converts to rune via int->string conversion rules
		if u.w > 32 {
			// out of range values become RuneError; handled by branch
			hi := tc.Cmp(OpUlt, tc.Const(u.w, 0x10FFFF), u)
			if m.branch(m.fromTerm(hi).(BoolV), "rune-range") {
				return m.encodeRune(mkInt(32, 0xFFFD))
			}
			u = tc.Extract(u, 31, 0)
		} else {
			u = tc.Zext(u, 32)
		}
	}
	lt := func(c uint64) bool {
		return m.branch(m.fromTerm(tc.Cmp(OpUlt, u, tc.Const(32, c))).(BoolV), "utf8-class")
	}
	mkb := func(t *Term, k, n int) BV {
		m.tc.u8[t] = U8Info{u, k, n}
		return BV{T: t, W: 8}
	}
	cont := func(hi, lo int) *Term { return tc.Concat(tc.Const(2, 2), tc.Extract(u, hi, lo)) }
	switch {
	case lt(0x80):
		return []BV{mkb(tc.Extract(u, 7, 0), 0, 1)}
	case lt(0x800):
		return []BV{mkb(tc.Concat(tc.Const(3, 6), tc.Extract(u, 10, 6)), 0, 2), mkb(cont(5, 0), 1, 2)}
	case lt(0xD800):
		return []BV{mkb(tc.Concat(tc.Const(4, 14), tc.Extract(u, 15, 12)), 0, 3), mkb(cont(11, 6), 1, 3), mkb(cont(5, 0), 2, 3)}
	case lt(0xE000):
		return m.encodeRune(mkInt(32, 0xFFFD))
	case lt(0x10000):
		return []BV{mkb(tc.Concat(tc.Const(4, 14), tc.Extract(u, 15, 12)), 0, 3), mkb(cont(11, 6), 1, 3), mkb(cont(5, 0), 2, 3)}
	case lt(0x110000):
		return []BV{mkb(tc.Concat(tc.Const(5, 30), tc.Extract(u, 20, 18)), 0, 4), mkb(cont(17, 12), 1, 4), mkb(cont(11, 6), 2, 4), mkb(cont(5, 0), 3, 4)}
	}
	return m.encodeRune(mkInt(32, 0xFFFD))
}

func (m *Machine) brUlt(b BV, c uint64) bool {
	if b.T == nil {
		return b.C < c
	}
	return m.branch(m.fromTerm(m.tc.Cmp(OpUlt, b.T, m.tc.Const(uint16(b.W), c))).(BoolV), "utf8-dec")
}

// decodeRuneAt decodes one rune of s starting at byte i (Go's utf8.DecodeRuneInString rules).
func (m *Machine) decodeRuneAt(s Str, i int) (BV, int) {
	n := len(s.S)
	b0 := s.byteAt(i)
	if b0.T != nil {
		if info, ok := m.tc.u8[b0.T]; ok && info.k == 0 && i+info.n <= n {
			good := true
			for k := 1; k < info.n; k++ {
				bk := s.byteAt(i + k)
				ik, ok2 := m.tc.u8[bk.T]
				if bk.T == nil || !ok2 || ik.r != info.r || ik.k != k || ik.n != info.n {
					good = false
					break
				}
			}
			if good {
				return BV{T: info.r, W: 32}, info.n
			}
		}
	}
	// fully concrete prefix?
	conc := true
	lim := i + 4
	if lim > n {
		lim = n
	}
	for k := i; k < lim; k++ {
		if s.Sym != nil && s.Sym[k] != nil {
			conc = false
			break
		}
	}
	if conc || (b0.T == nil && b0.C < 0x80) {
		if b0.C < 0x80 && b0.T == nil {
			return mkInt(32, b0.C), 1
		}
		r, sz := utf8.DecodeRuneInString(s.S[i:lim])
		return mkInt(32, uint64(uint32(r))), sz
	}
	bad := func() (BV, int) { return mkInt(32, 0xFFFD), 1 }
	tc := m.tc
	z := func(b BV, bits int) *Term { // low `bits` bits of b, zero-extended to 32
		return tc.Zext(tc.Extract(m.bvTerm(b), bits-1, 0), 32)
	}
	if m.brUlt(b0, 0x80) {
		return m.fromTerm(tc.Zext(m.bvTerm(b0), 32)).(BV), 1
	}
	if m.brUlt(b0, 0xC2) {
		return bad()
	}
	inRange := func(b BV, lo, hi uint64) bool {
		if m.brUlt(b, lo) {
			return false
		}
		return m.brUlt(b, hi+1)
	}
	shl := func(t *Term, k uint64) *Term { return tc.Bin(OpShl, t, tc.Const(32, k)) }
	if m.brUlt(b0, 0xE0) {
		if i+1 >= n || !inRange(s.byteAt(i+1), 0x80, 0xBF) {
			return bad()
		}
		r := tc.Bin(OpBOr, shl(z(b0, 5), 6), z(s.byteAt(i+1), 6))
		return m.fromTerm(r).(BV), 2
	}
	if m.brUlt(b0, 0xF0) {
		if i+2 >= n {
			return bad()
		}
		lo, hi := uint64(0x80), uint64(0xBF)
		if !m.brUlt(b0, 0xE1) { // b0 >= E1
			if !m.brUlt(b0, 0xED) && m.brUlt(b0, 0xEE) {
				hi = 0x9F
			}
		} else {
			lo = 0xA0
		}
		if !inRange(s.byteAt(i+1), lo, hi) || !inRange(s.byteAt(i+2), 0x80, 0xBF) {
			return bad()
		}
		r := tc.Bin(OpBOr, tc.Bin(OpBOr, shl(z(b0, 4), 12), shl(z(s.byteAt(i+1), 6), 6)), z(s.byteAt(i+2), 6))
		return m.fromTerm(r).(BV), 3
	}
	if m.brUlt(b0, 0xF5) {
		if i+3 >= n {
			return bad()
		}
		lo, hi := uint64(0x80), uint64(0xBF)
		if m.brUlt(b0, 0xF1) {
			lo = 0x90
		} else if !m.brUlt(b0, 0xF4) {
			hi = 0x8F
		}
		if !inRange(s.byteAt(i+1), lo, hi) || !inRange(s.byteAt(i+2), 0x80, 0xBF) || !inRange(s.byteAt(i+3), 0x80, 0xBF) {
			return bad()
		}
		r := tc.Bin(OpBOr, tc.Bin(OpBOr, shl(z(b0, 3), 18), shl(z(s.byteAt(i+1), 6), 12)),
			tc.Bin(OpBOr, shl(z(s.byteAt(i+2), 6), 6), z(s.byteAt(i+3), 6)))
		return m.fromTerm(r).(BV), 4
	}
	return bad()
}

func (m *Machine) strToRunes(s Str) []BV {
	var out []BV
	if s.Sym == nil {
		for _, r := range s.S {
			out = append(out, mkInt(32, uint64(uint32(r))))
		}
		return out
	}
	for i := 0; i < len(s.S); {
		r, n := m.decodeRuneAt(s, i)
		out = append(out, r)
		i += n
	}
	return out
}

func (m *Machine) runesToStr(rs []BV) Str {
	var bs []BV
	allc := true
	for _, r := range rs {
		if r.T != nil {
			allc = false
			break
		}
	}
	if allc {
		buf := make([]rune, len(rs))
		for i, r := range rs {
			buf[i] = rune(int32(uint32(r.C)))
		}
		return Str{S: string(buf)}
	}
	for _, r := range rs {
		bs = append(bs, m.encodeRune(r)...)
	}
	return strFromBytes(bs)
}

// ---------------------------------------------------------------------------
// Conversions

func (m *Machine) convert(from, to types.Type, v Value) Value {
	uf, ut := from.Underlying(), to.Underlying()
	// type parameters are instantiated away
	switch tt := ut.(type) {
	case *types.Basic:
		switch {
		case tt.Info()&types.IsInteger != 0:
			w, _ := intWidth(tt)
			switch x := v.(type) {
			case BV:
				if x.W == w {
					return x
				}
				signed := isSigned(from)
				if x.T == nil {
					if signed {
						return boxInt(w, uint64(x.sval()))
					}
					return boxInt(w, x.C)
				}
				if signed && w > x.W {
					return m.fromTerm(m.tc.Sext(x.T, uint16(w)))
				}
				return m.fromTerm(m.tc.Zext(x.T, uint16(w)))
			case F64:
				if _, s := intWidth(tt); s {
					return boxInt(w, uint64(int64(x)))
				}
				return boxInt(w, uint64(x))
			case Ptr:
				// unsafe.Pointer -> uintptr: give object identity; only for nil tests
				if x.o == nil {
					return boxInt(w, 0)
				}
				return boxInt(w, uint64(x.o.id)<<20+uint64(x.off))
			}
		case tt.Info()&types.IsFloat != 0:
			switch x := v.(type) {
			case F64:
				if tt.Kind() == types.Float32 {
					return F64(float32(x))
				}
				return x
			case BV:
				if x.T != nil {
					x = mkInt(x.W, m.concretize(x, "int-to-float"))
				}
				if isSigned(from) {
					return F64(float64(x.sval()))
				}
				return F64(float64(x.C))
			}
		case tt.Info()&types.IsString != 0:
			switch x := v.(type) {
			case Str:
				return x
			case BV: // integer -> string
				if isSigned(from) && x.T == nil && x.sval() < 0 {
					return Str{S: "�"}
				}
				if x.T == nil && x.C > 0x10FFFF {
					return Str{S: "�"}
				}
				if x.T != nil && x.W < 32 {
					if isSigned(from) {
						x = m.fromTerm(m.tc.Sext(x.T, 32)).(BV)
					} else {
						x = m.fromTerm(m.tc.Zext(x.T, 32)).(BV)
					}
				} else if x.T == nil {
					x = mkInt(32, x.C)
				}
				return strFromBytes(m.encodeRune(x))
			case Slice:
				et := uf.(*types.Slice).Elem().Underlying().(*types.Basic)
				if et.Kind() == types.Uint8 {
					bs := make([]BV, x.len)
					for i := 0; i < x.len; i++ {
						bs[i] = x.o.slots[x.off+i].(BV)
					}
					return strFromBytes(bs)
				}
				rs := make([]BV, x.len)
				for i := 0; i < x.len; i++ {
					rs[i] = x.o.slots[x.off+i].(BV)
				}
				return m.runesToStr(rs)
			}
		case tt.Kind() == types.UnsafePointer:
			switch x := v.(type) {
			case Ptr:
				return x
			case BV:
				if x.T == nil && x.C == 0 {
					return Ptr{}
				}
				m.unsupported("uintptr -> unsafe.Pointer conversion")
			}
		case tt.Info()&types.IsBoolean != 0:
			return v
		case tt.Info()&types.IsComplex != 0:
			return v
		}
	case *types.Slice:
		if s, ok := v.(Str); ok {
			eb := tt.Elem().Underlying().(*types.Basic)
			if eb.Kind() == types.Uint8 {
				n := len(s.S)
				sl := m.makeSlice(tt.Elem(), n, roundCap(n, 1))
				for i := 0; i < n; i++ {
					sl.o.slots[i] = s.byteAt(i)
				}
				return sl
			}
			rs := m.strToRunes(s)
			sl := m.makeSlice(tt.Elem(), len(rs), roundCap(len(rs), 4))
			for i, r := range rs {
				sl.o.slots[i] = r
			}
			return sl
		}
		return v
	case *types.Pointer:
		return v // unsafe.Pointer -> *T
	}
	if types.Identical(uf, ut) {
		return v
	}
	panic(fmt.Sprintf("convert %v -> %v (%T)", from, to, v))
}

// ---------------------------------------------------------------------------
// Slices

var classToSize = []int{0, 8, 16, 24, 32, 48, 64, 80, 96, 112, 128, 144, 160, 176, 192, 208, 224, 240, 256, 288, 320, 352, 384, 416, 448, 480, 512, 576, 640, 704, 768, 896, 1024, 1152, 1280, 1408, 1536, 1792, 2048, 2304, 2688, 3072, 3200, 3456, 4096, 4864, 5376, 6144, 6528, 6784, 6912, 8192, 9472, 9728, 10240, 10880, 12288, 13568, 14336, 16384, 18432, 19072, 20480, 21760, 24576, 27264, 28672, 32768}

func roundupsize(size int, noscan bool) int {
	req := size
	if size <= 32768-8 {
		if !noscan && size > 512 {
			req += 8
		}
		for _, c := range classToSize {
			if c >= req {
				return c - (req - size)
			}
		}
	}
	req += 8191
	return req &^ 8191
}

func roundCap(n, esz int) int {
	if n == 0 {
		return 0
	}
	return roundupsize(n*esz, true) / esz
}

var gcSizes = types.SizesFor("gc", "amd64")

func hasPointers(t types.Type) bool {
	switch u := t.Underlying().(type) {
	case *types.Basic:
		return u.Kind() == types.String || u.Kind() == types.UnsafePointer
	case *types.Struct:
		for i := 0; i < u.NumFields(); i++ {
			if hasPointers(u.Field(i).Type()) {
				return true
			}
		}
		return false
	case *types.Array:
		return u.Len() > 0 && hasPointers(u.Elem())
	}
	return true
}

func growCap(newLen, oldCap int, et types.Type) int {
	newcap := oldCap
	doublecap := newcap + newcap
	if newLen > doublecap {
		newcap = newLen
	} else if oldCap < 256 {
		newcap = doublecap
	} else {
		for {
			newcap += (newcap + 3*256) >> 2
			if newcap >= newLen {
				break
			}
		}
	}
	esz := int(gcSizes.Sizeof(et))
	if esz == 0 {
		return newcap
	}
	mem := roundupsize(newcap*esz, !hasPointers(et))
	return mem / esz
}

func (m *Machine) makeSlice(et types.Type, ln, cp int) Slice {
	es := m.sizeOf(et)
	o := m.newObj(0, "slice")
	if cp > 0 {
		z := m.zeroInto(make([]Value, 0, es*cp), et)
		for i := 1; i < cp; i++ {
			z = append(z, z[:es]...)
		}
		o.slots = z
	}
	return Slice{o: o, off: 0, len: ln, cap: cp, es: es}
}

func (m *Machine) concreteInt(b BV, why string) int64 {
	if b.T == nil {
		return b.sval()
	}
	return sext(m.concretize(b, why), uint16(b.W))
}

func (m *Machine) sliceOp(in *ssa.Slice, x, lo, hi, max Value) Value {
	getIT := func(v Value, def int, e ssa.Value) int {
		if v == nil {
			return def
		}
		b := v.(BV)
		x := m.concreteInt(b, "slice-bound")
		if e != nil && b.W < 64 && isUnsignedType(e.Type()) {
			x &= int64(1)<<b.W - 1 // unsigned narrow bound: zero-extended
		}
		return int(x)
	}
	switch xv := x.(type) {
	case Str:
		l := getIT(lo, 0, in.Low)
		h := getIT(hi, len(xv.S), in.High)
		if h < 0 {
			m.goPanicRuntime(fmt.Sprintf("slice bounds out of range [:%d]", h))
		}
		if h > len(xv.S) {
			m.goPanicRuntime(fmt.Sprintf("slice bounds out of range [:%d] with length %d", h, len(xv.S)))
		}
		if l < 0 {
			m.goPanicRuntime(fmt.Sprintf("slice bounds out of range [%d:]", l))
		}
		if l < 0 || l > h {
			m.goPanicRuntime(fmt.Sprintf("slice bounds out of range [%d:%d]", l, h))
		}
		return xv.slice(l, h)
	case Slice:
		l := getIT(lo, 0, in.Low)
		h := getIT(hi, xv.len, in.High)
		mx := getIT(max, xv.cap, in.Max)
		if max != nil && (mx < 0 || mx > xv.cap) {
			m.goPanicRuntime(fmt.Sprintf("slice bounds out of range [::%d] with capacity %d", mx, xv.cap))
		}
		if h < 0 {
			m.goPanicRuntime(fmt.Sprintf("slice bounds out of range [:%d]", h))
		}
		if h > mx {
			if max == nil {
				m.goPanicRuntime(fmt.Sprintf("slice bounds out of range [:%d] with capacity %d", h, xv.cap))
			}
			m.goPanicRuntime(fmt.Sprintf("slice bounds out of range [:%d:%d]", h, mx))
		}
		if l < 0 {
			m.goPanicRuntime(fmt.Sprintf("slice bounds out of range [%d:]", l))
		}
		if l > h {
			m.goPanicRuntime(fmt.Sprintf("slice bounds out of range [%d:%d]", l, h))
		}
		if xv.o == nil {
			return Slice{es: xv.es}
		}
		return Slice{o: xv.o, off: xv.off + l*xv.es, len: h - l, cap: mx - l, es: xv.es}
	case Ptr: // *array
		at := in.X.Type().Underlying().(*types.Pointer).Elem().Underlying().(*types.Array)
		n := int(at.Len())
		es := m.sizeOf(at.Elem())
		if xv.o == nil {
			m.goPanicRuntime("invalid memory address or nil pointer dereference")
		}
		l := getIT(lo, 0, in.Low)
		h := getIT(hi, n, in.High)
		mx := getIT(max, n, in.Max)
		if mx < 0 || mx > n || h < 0 || h > mx || l < 0 || l > h {
			m.goPanicRuntime(fmt.Sprintf("slice bounds out of range [%d:%d:%d] with array length %d", l, h, mx, n))
		}
		return Slice{o: xv.o, off: xv.off + l*es, len: h - l, cap: mx - l, es: es}
	}
	panic(fmt.Sprintf("sliceOp on %T", x))
}

// checkIndex resolves a (possibly symbolic) index against a concrete length.
// checkIndex: Go's index check; uns tells whether the index expression has an unsigned type
// (a uint8 index of 0xC3 is 195, not -61).
func (m *Machine) checkIndex(idx BV, n int, uns bool) int {
	val := func(v uint64) int64 {
		if uns {
			if idx.W < 64 {
				v &= (uint64(1) << idx.W) - 1
			}
			return int64(v)
		}
		return sext(v, uint16(idx.W))
	}
	if idx.T == nil {
		i := val(idx.C)
		if i < 0 {
			m.goPanicRuntime(fmt.Sprintf("index out of range [%d]", i))
		}
		if i >= int64(n) {
			m.goPanicRuntime(fmt.Sprintf("index out of range [%d] with length %d", i, n))
		}
		return int(i)
	}
	var inb BoolV
	switch {
	case idx.W >= 64:
		inb = m.fromTerm(m.tc.Cmp(OpUlt, idx.T, m.tc.Const(64, uint64(n)))).(BoolV)
	case uns:
		inb = m.fromTerm(m.tc.Cmp(OpUlt, m.tc.Zext(idx.T, 64), m.tc.Const(64, uint64(n)))).(BoolV)
	default:
		inb = m.fromTerm(m.tc.Cmp(OpUlt, m.tc.Sext(idx.T, 64), m.tc.Const(64, uint64(n)))).(BoolV)
	}
	if !m.branch(inb, "index-bounds") {
		v := m.concretize(idx, "index-oob")
		if val(v) < 0 {
			m.goPanicRuntime(fmt.Sprintf("index out of range [%d]", val(v)))
		}
		m.goPanicRuntime(fmt.Sprintf("index out of range [%d] with length %d", val(v), n))
	}
	return int(m.concretize(idx, "index"))
}

func isUnsignedType(t types.Type) bool {
	b, ok := t.Underlying().(*types.Basic)
	return ok && b.Info()&types.IsUnsigned != 0
}

func (m *Machine) indexAddr(in *ssa.IndexAddr, x Value, idx BV) Value {
	switch xv := x.(type) {
	case Slice:
		i := m.checkIndex(idx, xv.len, isUnsignedType(in.Index.Type()))
		return Ptr{xv.o, xv.off + i*xv.es}
	case Ptr:
		at := in.X.Type().Underlying().(*types.Pointer).Elem().Underlying().(*types.Array)
		if xv.o == nil {
			m.goPanicRuntime("invalid memory address or nil pointer dereference")
		}
		i := m.checkIndex(idx, int(at.Len()), isUnsignedType(in.Index.Type()))
		return Ptr{xv.o, xv.off + i*m.sizeOf(at.Elem())}
	}
	panic(fmt.Sprintf("indexAddr on %T", x))
}

func (m *Machine) indexOp(in *ssa.Index, x Value, idx BV) Value {
	switch xv := x.(type) {
	case Tuple:
		at := in.X.Type().Underlying().(*types.Array)
		es := m.sizeOf(at.Elem())
		i := m.checkIndex(idx, int(at.Len()), isUnsignedType(in.Index.Type()))
		if isAggregate(at.Elem()) {
			return Tuple(append([]Value(nil), xv[i*es:(i+1)*es]...))
		}
		return xv[i*es]
	case Str:
		i := m.checkIndex(idx, len(xv.S), isUnsignedType(in.Index.Type()))
		return xv.byteAt(i)
	}
	panic(fmt.Sprintf("indexOp on %T", x))
}

func (m *Machine) lookup(in *ssa.Lookup, x, k Value) Value {
	if s, ok := x.(Str); ok {
		i := m.checkIndex(k.(BV), len(s.S), isUnsignedType(in.Index.Type()))
		return s.byteAt(i)
	}
	mp, _ := x.(*MapObj)
	v, ok := m.mapLookup(mp, k)
	if !ok {
		v = m.zero(in.X.Type().Underlying().(*types.Map).Elem())
	}
	if in.CommaOk {
		return Tuple{v, BoolV{C: ok}}
	}
	return v
}

func (m *Machine) implements(t types.Type, it *types.Interface) bool {
	key := implKey{t, it}
	if r, ok := m.implCache[key]; ok {
		return r
	}
	meth, _ := types.MissingMethod(t, it, true)
	r := meth == nil
	m.implCache[key] = r
	return r
}

type implKey struct {
	t  types.Type
	it *types.Interface
}

func (m *Machine) typeAssert(in *ssa.TypeAssert, x Iface) Value {
	var ok bool
	if it, isI := in.AssertedType.Underlying().(*types.Interface); isI {
		ok = x.t != nil && m.implements(x.t, it)
		if ok {
			if in.CommaOk {
				return Tuple{x, BoolV{C: true}}
			}
			return x
		}
		if in.CommaOk {
			return Tuple{Iface{}, BoolV{C: false}}
		}
	} else {
		ok = x.t != nil && types.Identical(x.t, in.AssertedType)
		if ok {
			if in.CommaOk {
				return Tuple{x.v, BoolV{C: true}}
			}
			return x.v
		}
		if in.CommaOk {
			return Tuple{m.zero(in.AssertedType), BoolV{C: false}}
		}
	}
	dyn := "nil"
	if x.t != nil {
		dyn = x.t.String()
	}
	m.goPanicRuntime(fmt.Sprintf("interface conversion: interface is %s, not %s", dyn, in.AssertedType))
	return nil
}

// ---------------------------------------------------------------------------
// Range / Next

func (m *Machine) rangeIter(x Value) *RangeIter {
	switch v := x.(type) {
	case Str:
		return &RangeIter{str: &v}
	case *MapObj:
		it := &RangeIter{m: v}
		m.resolveLazy(v)
		if v != nil {
			for i := range v.entries {
				if !v.entries[i].deleted {
					it.order = append(it.order, i)
				}
			}
			it.order = m.mapOrder(v, it.order)
		}
		return it
	}
	panic(fmt.Sprintf("range over %T", x))
}

func (m *Machine) next(in *ssa.Next, it *RangeIter) Value {
	if in.IsString {
		s := *it.str
		if it.pos >= len(s.S) {
			return Tuple{BoolV{C: false}, mkInt(64, 0), mkInt(32, 0)}
		}
		r, n := m.decodeRuneAt(s, it.pos)
		res := Tuple{BoolV{C: true}, mkInt(64, uint64(it.pos)), r}
		it.pos += n
		return res
	}
	for it.pos < len(it.order) {
		i := it.order[it.pos]
		it.pos++
		if i >= len(it.m.entries) || it.m.entries[i].deleted {
			continue
		}
		e := it.m.entries[i]
		return Tuple{BoolV{C: true}, e.k, e.v}
	}
	tt := in.Type().(*types.Tuple)
	var k, v Value
	if !isInvalid(tt.At(1).Type()) {
		k = m.zero(tt.At(1).Type())
	}
	if !isInvalid(tt.At(2).Type()) {
		v = m.zero(tt.At(2).Type())
	}
	return Tuple{BoolV{C: false}, k, v}
}

func isInvalid(t types.Type) bool {
	b, ok := t.(*types.Basic)
	return ok && b.Kind() == types.Invalid
}

// ---------------------------------------------------------------------------
// Channels

func (m *Machine) logChan(ch *ChanObj) {
	if ch.epoch <= m.ckEpoch && m.logging {
		m.undo = append(m.undo, undoRec{ch: ch, chOld: *ch})
	}
}

func (m *Machine) chanSend(ch *ChanObj, v Value) {
	if ch == nil {
		panic(pathEnd{kind: "deadlock", msg: "send on nil channel\n" + m.where(m.cur)})
	}
	if ch.closed {
		panic(&goPanic{v: Iface{t: m.runtimeErrT, v: Str{S: "send on closed channel"}}, stack: m.where(m.cur)})
	}
	if len(ch.buf) < ch.cap {
		m.logChan(ch)
		ch.buf = append(ch.buf[:len(ch.buf):len(ch.buf)], v)
		return
	}
	panic(pathEnd{kind: "deadlock", msg: "channel send with no receiver (single goroutine)\n" + m.where(m.cur)})
}

func (m *Machine) chanRecv(ch *ChanObj, et types.Type) (Value, bool) {
	if ch == nil {
		panic(pathEnd{kind: "deadlock", msg: "receive from nil channel\n" + m.where(m.cur)})
	}
	if len(ch.buf) > 0 {
		m.logChan(ch)
		v := ch.buf[0]
		ch.buf = ch.buf[1:]
		return v, true
	}
	if ch.closed {
		return m.zero(et), false
	}
	panic(pathEnd{kind: "deadlock", msg: "channel receive with no sender (single goroutine)\n" + m.where(m.cur)})
}

func (m *Machine) selectOp(fr *frame, in *ssa.Select, ci *cinstr) Value {
	// operand order: for each state: Chan, Send
	res := make(Tuple, 2+0)
	nrecv := 0
	for _, st := range in.States {
		if st.Dir == types.RecvOnly {
			nrecv++
		}
	}
	res = make(Tuple, 2+nrecv)
	ri := 0
	for i, st := range in.States {
		if st.Dir == types.RecvOnly {
			res[2+ri] = m.zero(st.Chan.Type().Underlying().(*types.Chan).Elem())
			ri++
		}
		_ = i
	}
	ri = 0
	for i, st := range in.States {
		ch, _ := fr.get(&ci.ops[2*i]).(*ChanObj)
		if st.Dir == types.RecvOnly {
			if ch != nil && (len(ch.buf) > 0 || ch.closed) {
				v, ok := m.chanRecv(ch, st.Chan.Type().Underlying().(*types.Chan).Elem())
				res[0] = mkInt(64, uint64(i))
				res[1] = BoolV{C: ok}
				res[2+ri] = v
				return res
			}
			ri++
		} else {
			if ch != nil && (ch.closed || len(ch.buf) < ch.cap) {
				m.chanSend(ch, fr.get(&ci.ops[2*i+1]))
				res[0] = mkInt(64, uint64(i))
				res[1] = BoolV{C: false}
				return res
			}
		}
	}
	if !in.Blocking {
		res[0] = mkInt(64, ^uint64(0))
		res[1] = BoolV{C: false}
		return res
	}
	panic(pathEnd{kind: "deadlock", msg: "select with no ready case (single goroutine)\n" + m.where(fr)})
}

// ---------------------------------------------------------------------------
// Builtins

func (m *Machine) callBuiltin(caller *frame, b *ssa.Builtin, args []Value, site ssa.CallInstruction) Value {
	switch b.Name() {
	case "len":
		switch x := args[0].(type) {
		case Str:
			return boxInt(64, uint64(len(x.S)))
		case Slice:
			return boxInt(64, uint64(x.len))
		case *MapObj:
			if x == nil {
				return boxInt(64, 0)
			}
			m.resolveLazy(x)
			return boxInt(64, uint64(x.n))
		case *ChanObj:
			if x == nil {
				return boxInt(64, 0)
			}
			return boxInt(64, uint64(len(x.buf)))
		case Tuple: // array
			at := b.Type().(*types.Signature).Params().At(0).Type().Underlying().(*types.Array)
			return boxInt(64, uint64(at.Len()))
		case Ptr: // *array
			at := b.Type().(*types.Signature).Params().At(0).Type().Underlying().(*types.Pointer).Elem().Underlying().(*types.Array)
			return boxInt(64, uint64(at.Len()))
		}
	case "cap":
		switch x := args[0].(type) {
		case Slice:
			return boxInt(64, uint64(x.cap))
		case *ChanObj:
			if x == nil {
				return boxInt(64, 0)
			}
			return boxInt(64, uint64(x.cap))
		case Tuple:
			at := b.Type().(*types.Signature).Params().At(0).Type().Underlying().(*types.Array)
			return boxInt(64, uint64(at.Len()))
		case Ptr:
			at := b.Type().(*types.Signature).Params().At(0).Type().Underlying().(*types.Pointer).Elem().Underlying().(*types.Array)
			return boxInt(64, uint64(at.Len()))
		}
	case "append":
		st := b.Type().(*types.Signature).Params().At(0).Type()
		return m.appendOp(st, args[0].(Slice), args[1])
	case "copy":
		dst := args[0].(Slice)
		switch src := args[1].(type) {
		case Slice:
			n := dst.len
			if src.len < n {
				n = src.len
			}
			if n > 0 {
				tmp := make([]Value, n*dst.es)
				copy(tmp, src.o.slots[src.off:src.off+n*dst.es])
				for i, v := range tmp {
					m.storeSlot(dst.o, dst.off+i, v)
				}
			}
			return boxInt(64, uint64(n))
		case Str:
			n := dst.len
			if len(src.S) < n {
				n = len(src.S)
			}
			for i := 0; i < n; i++ {
				m.storeSlot(dst.o, dst.off+i, src.byteAt(i))
			}
			return boxInt(64, uint64(n))
		}
	case "delete":
		mp, _ := args[0].(*MapObj)
		m.mapDelete(mp, args[1])
		return nil
	case "close":
		ch, _ := args[0].(*ChanObj)
		if ch == nil {
			m.goPanicRuntime("close of nil channel")
		}
		if ch.closed {
			m.goPanicRuntime("close of closed channel")
		}
		m.logChan(ch)
		ch.closed = true
		return nil
	case "recover":
		if caller != nil && caller.caller != nil && caller.caller.panicking {
			p := caller.caller
			p.panicking = false
			gp := p.panic.(*goPanic)
			p.panic = nil
			m.lastRecovered = gp
			return gp.v
		}
		return Iface{}
	case "print", "println":
		return nil
	case "min", "max":
		res := args[0]
		t := b.Type().(*types.Signature).Params().At(0).Type()
		for _, a := range args[1:] {
			var lt BoolV
			if b.Name() == "min" {
				lt = m.binop(token.LSS, t, a, res).(BoolV)
			} else {
				lt = m.binop(token.GTR, t, a, res).(BoolV)
			}
			if lt.T == nil {
				if lt.C {
					res = a
				}
				continue
			}
			if x, ok := a.(BV); ok {
				res = m.fromTerm(m.tc.Ite(lt.T, m.bvTerm(x), m.bvTerm(res.(BV))))
			} else if m.branch(lt, "minmax") {
				res = a
			}
		}
		return res
	case "clear":
		switch x := args[0].(type) {
		case *MapObj:
			if x != nil {
				m.logMap(x)
				x.idx = map[string]int{}
				x.entries = nil
				x.n = 0
			}
		case Slice:
			if x.len > 0 {
				et := b.Type().(*types.Signature).Params().At(0).Type().Underlying().(*types.Slice).Elem()
				z := m.zeroInto(nil, et)
				for i := 0; i < x.len; i++ {
					for j, v := range z {
						m.storeSlot(x.o, x.off+i*x.es+j, v)
					}
				}
			}
		}
		return nil
	case "SliceData":
		sl := args[0].(Slice)
		if sl.o == nil {
			return Ptr{}
		}
		return Ptr{sl.o, sl.off}
	case "StringData":
		// a string's bytes are materialised as a fresh byte object
		s := args[0].(Str)
		o := m.newObj(len(s.S), "stringdata")
		for i := range s.S {
			o.slots[i] = s.byteAt(i)
		}
		return Ptr{o, 0}
	case "String":
		p := args[0].(Ptr)
		n := int(m.concreteInt(args[1].(BV), "unsafe.String"))
		if n == 0 {
			return Str{}
		}
		bs := make([]BV, n)
		for i := range bs {
			bs[i] = p.o.slots[p.off+i].(BV)
		}
		return strFromBytes(bs)
	case "Slice":
		p := args[0].(Ptr)
		n := int(m.concreteInt(args[1].(BV), "unsafe.Slice"))
		et := b.Type().(*types.Signature).Params().At(0).Type().Underlying().(*types.Pointer).Elem()
		if p.o == nil {
			return Slice{es: m.sizeOf(et)}
		}
		return Slice{o: p.o, off: p.off, len: n, cap: n, es: m.sizeOf(et)}
	case "ssa:wrapnilchk":
		if p, ok := args[0].(Ptr); ok && p.o == nil {
			m.goPanicRuntime(fmt.Sprintf("value method %s.%s called using nil pointer", args[1].(Str).S, args[2].(Str).S))
		}
		return args[0]
	}
	panic(fmt.Sprintf("builtin %s on %T", b.Name(), args[0]))
}

func (m *Machine) appendOp(st types.Type, s Slice, more Value) Value {
	et := st.Underlying().(*types.Slice).Elem()
	es := m.sizeOf(et)
	var n int
	var src Slice
	var srcStr Str
	isStr := false
	switch x := more.(type) {
	case Slice:
		src = x
		n = x.len
	case Str:
		srcStr = x
		isStr = true
		n = len(x.S)
	}
	if n == 0 {
		if s.o == nil {
			return Slice{es: es}
		}
		return s
	}
	newLen := s.len + n
	var dst Slice
	if newLen <= s.cap && s.o != nil {
		dst = Slice{o: s.o, off: s.off, len: newLen, cap: s.cap, es: es}
	} else {
		cp := growCap(newLen, s.cap, et)
		dst = m.makeSlice(et, newLen, cp)
		if s.len > 0 {
			copy(dst.o.slots, s.o.slots[s.off:s.off+s.len*es])
		}
	}
	base := dst.off + s.len*es
	if isStr {
		for i := 0; i < n; i++ {
			m.storeSlot(dst.o, base+i, srcStr.byteAt(i))
		}
	} else {
		tmp := make([]Value, n*es)
		copy(tmp, src.o.slots[src.off:src.off+n*es])
		for i, v := range tmp {
			m.storeSlot(dst.o, base+i, v)
		}
	}
	return dst
}

var _ = math.Ceil

// Pre-boxed small constants: avoid an allocation per integer/boolean result.
var smallInts [4][1024]Value
var boxedTrue, boxedFalse Value = BoolV{C: true}, BoolV{C: false}

func init() {
	for wi, w := range []uint8{8, 16, 32, 64} {
		for v := 0; v < 1024; v++ {
			smallInts[wi][v] = BV{C: uint64(v) & mask(uint16(w)), W: w}
		}
	}
}

func boxInt(w uint8, v uint64) Value {
	v &= mask(uint16(w))
	if v < 1024 {
		switch w {
		case 8:
			return smallInts[0][v]
		case 16:
			return smallInts[1][v]
		case 32:
			return smallInts[2][v]
		case 64:
			return smallInts[3][v]
		}
	}
	return BV{C: v, W: w}
}

func boxBool(b bool) Value {
	if b {
		return boxedTrue
	}
	return boxedFalse
}
