package main

// Machine: one worker's interpreter state, path conditions, decisions.

import (
	"fmt"
	"go/types"
	"sort"
	"strings"
	"sync"
	"sync/atomic"

	"golang.org/x/tools/go/ssa"
)

var machineSeq int32
var siteStats map[string]int
var siteMu sync.Mutex

type Stats struct {
	allocs, calls, goStmts int64
}

type NondetRec struct {
	Name string
	T    *Term
}

type Violation struct {
	Label   string            `json:"label"`
	Kind    string            `json:"kind"` // assert, panic, deadlock, spin
	Msg     string            `json:"msg"`
	Site    string            `json:"site"`
	Stack   string            `json:"stack,omitempty"`
	Job     map[string]string `json:"job"`
	Vals    map[string]uint64 `json:"vals"`
	Notes   map[string]string `json:"notes,omitempty"`
	Replay  string            `json:"replay,omitempty"`
	Status  string            `json:"status,omitempty"` // reproduced, not-reproduced, known
	KnownAs string            `json:"known_as,omitempty"`
}

type PathState struct {
	trace    []uint64
	pos      int
	taken    []uint64
	pc       []*Term
	sent     int
	solverOn bool
	model    Model
	modelOK  bool
	nondets  []NondetRec
	names    map[string]int
	reaches  map[string]bool
	notes    map[string]string
	unknown  bool
	viol     []*Violation
	known    map[*Term]bool
	doms     map[*Term]*dom
	nquick   int
	scanned  map[*Term]bool
	nscanned int
	ors      []*Term
	inOrs    bool
}

type WorkItem struct {
	trace []uint64
	model Model
}

type Machine struct {
	prog        *Program
	tc          *TermCtx
	solver      *Solver
	globals     map[*ssa.Global]Ptr
	layouts     map[types.Type]*layout
	methCache   map[methKey]*ssa.Function
	implCache   map[implKey]bool
	inited      map[*ssa.Package]bool
	initing     map[*ssa.Package]bool
	runtimeErrT types.Type

	epoch, ckEpoch uint32
	logging        bool
	undo           []undoRec
	mapLogged      map[*MapObj]bool
	nextObj        uint32

	cur             *frame
	depth, maxDepth int
	steps, maxSteps int64
	symBackEdges    int
	maxSymBackEdges int
	stats           Stats
	cover           map[*ssa.Function]bool
	lastRecovered   *goPanic

	path   *PathState
	job    *Job
	spawn  func(WorkItem)
	env    *Env
	intr   map[*ssa.Function]intrinsicFn
	noIntr map[*ssa.Function]bool

	id          int
	cfuncs      map[*ssa.Function]*cfunc
	slab        []Value
	sp          int
	frames      []*frame
	nframes     int
	mapOrderAll bool
	concCap     int
	stubSet     map[string]bool
}

func NewMachine(p *Program) *Machine {
	m := &Machine{
		prog:            p,
		tc:              NewTermCtx(),
		globals:         map[*ssa.Global]Ptr{},
		layouts:         map[types.Type]*layout{},
		methCache:       map[methKey]*ssa.Function{},
		implCache:       map[implKey]bool{},
		inited:          map[*ssa.Package]bool{},
		initing:         map[*ssa.Package]bool{},
		maxDepth:        400,
		maxSteps:        200_000_000,
		maxSymBackEdges: 4000,
		intr:            map[*ssa.Function]intrinsicFn{},
		noIntr:          map[*ssa.Function]bool{},
		cover:           map[*ssa.Function]bool{},
		concCap:         64,
		cfuncs:          map[*ssa.Function]*cfunc{},
		slab:            make([]Value, 1<<16),
	}
	m.epoch = 1
	m.id = int(atomic.AddInt32(&machineSeq, 1))
	if rt := p.pkgs["runtime"]; rt != nil {
		m.runtimeErrT = rt.Type("errorString").Type()
	}
	m.env = newEnv(m)
	m.path = &PathState{names: map[string]int{}, reaches: map[string]bool{}, notes: map[string]string{}, modelOK: true, model: Model{}, known: map[*Term]bool{}, doms: map[*Term]*dom{}, scanned: map[*Term]bool{}}
	return m
}

// ---------------------------------------------------------------------------
// checkpoint / rollback

func (m *Machine) checkpoint() {
	m.ckEpoch = m.epoch
	m.epoch++
	m.logging = true
	m.undo = m.undo[:0]
}

func (m *Machine) rollback() {
	for i := len(m.undo) - 1; i >= 0; i-- {
		u := &m.undo[i]
		switch {
		case u.o != nil:
			u.o.slots[u.slot] = u.old
		case u.mp != nil:
			u.mp.idx = u.mold.idx
			u.mp.entries = u.mold.entries
			u.mp.n = u.mold.n
			u.mp.nlazy = u.mold.nlazy
		case u.ch != nil:
			*u.ch = u.chOld
		case u.slot == -1:
			// lazily created global during a path: drop it
			delete(m.globals, u.old.(*ssa.Global))
		}
	}
	m.undo = m.undo[:0]
	m.mapLogged = nil
}

// ---------------------------------------------------------------------------
// path condition and decisions

func (m *Machine) addPC(t *Term) {
	if t.isTrue() {
		return
	}
	m.path.pc = append(m.path.pc, t)
	m.path.learn(t)
}

func (m *Machine) syncSolver(extra []*Term) {
	p := m.path
	if !p.solverOn {
		m.solver.BeginPath()
		p.solverOn = true
		p.sent = 0
	}
	// a symbol name reused with another width (another harness ran on this solver): reset
	for _, nd := range p.nondets {
		if w, ok := m.solver.baseSyms[nd.T.name]; ok && w != nd.T.w {
			m.solver.Reset()
			m.solver.BeginPath()
			p.sent = 0
			break
		}
	}
	// unicode applications on plain symbols get their full definition at base level
	var need []*Term
	var scan func(t *Term)
	scan = func(t *Term) {
		if t == nil || p.scanned[t] {
			return
		}
		p.scanned[t] = true
		if m.solver.NeedBase(t) {
			need = append(need, t)
		}
		scan(t.a)
		scan(t.b)
		scan(t.c)
	}
	for ; p.nscanned < len(p.pc); p.nscanned++ {
		scan(p.pc[p.nscanned])
	}
	for _, e := range extra {
		scan(e)
	}
	if len(need) > 0 {
		m.solver.AddBase(need)
		m.solver.BeginPath()
		p.sent = 0
	}
	for p.sent < len(p.pc) {
		m.solver.Assert(p.pc[p.sent])
		p.sent++
	}
	// declare all nondet symbols so models always mention them
	for _, nd := range p.nondets {
		m.solver.define(nd.T)
	}
}

func (m *Machine) check(extra ...*Term) (SatResult, Model) {
	m.syncSolver(extra)
	syms := make([]*Term, len(m.path.nondets))
	for i, nd := range m.path.nondets {
		syms[i] = nd.T
	}
	return m.solver.Check(syms, extra...)
}

func (m *Machine) evalUnder(t *Term) uint64 {
	return evalTerm(t, m.path.model, map[*Term]uint64{})
}

func (m *Machine) ensureModel() bool {
	p := m.path
	if p.modelOK {
		return true
	}
	r, mod := m.check()
	if r == Sat {
		p.model = mod
		p.modelOK = true
		return true
	}
	if r == Unsat {
		panic(pathEnd{kind: "infeasible", msg: "path condition unsatisfiable"})
	}
	p.unknown = true
	return false
}

// branch decides a symbolic condition; both feasible sides are explored (the other side
// is spawned as a work item).
func (m *Machine) branch(c BoolV, site string) bool {
	if c.T == nil {
		return c.C
	}
	p := m.path
	tc := m.tc
	if v, ok := p.quick(c.T); ok {
		p.nquick++
		return v
	}
	if p.pos < len(p.trace) {
		d := p.trace[p.pos]
		p.pos++
		p.taken = append(p.taken, d)
		if d == 1 {
			m.addPC(c.T)
			return true
		}
		m.addPC(tc.Not(c.T))
		return false
	}
	var side bool
	if m.ensureModel() {
		side = m.evalUnder(c.T) == 1
	} else {
		// no model: ask the solver for each side
		r, mod := m.check(c.T)
		switch r {
		case Sat:
			side = true
			p.model, p.modelOK = mod, true
		case Unsat:
			side = false
		default:
			side = true
			p.unknown = true
		}
	}
	otherT := c.T
	var otherV uint64 = 1
	if side {
		otherT = tc.Not(c.T)
		otherV = 0
	}
	r, mod := m.check(otherT)
	if siteStats != nil && m.cur != nil {
		siteMu.Lock()
		pos := m.prog.prog.Fset.Position(m.cur.curInstr.Pos())
		siteStats[fmt.Sprintf("%s %s:%d %v", m.cur.cf.name, shortFile(pos.Filename), pos.Line, r)]++
		siteMu.Unlock()
	}
	switch r {
	case Sat:
		m.spawnItem(otherV, mod)
	case Unknown:
		p.unknown = true
		m.job.noteUnknown(site + ": " + m.where(m.cur))
		m.spawnItem(otherV, nil)
	}
	var d uint64
	if side {
		d = 1
		m.addPC(c.T)
	} else {
		m.addPC(tc.Not(c.T))
	}
	p.taken = append(p.taken, d)
	p.trace = p.taken
	p.pos = len(p.trace)
	return side
}

func (m *Machine) spawnItem(d uint64, mod Model) {
	tr := make([]uint64, len(m.path.taken)+1)
	copy(tr, m.path.taken)
	tr[len(tr)-1] = d
	m.spawn(WorkItem{trace: tr, model: mod})
}

// concretize picks every feasible value of b in turn (this path continues with one, the
// others are spawned).
func (m *Machine) concretize(b BV, why string) uint64 {
	if b.T == nil {
		return b.C
	}
	p := m.path
	tc := m.tc
	w := uint16(b.W)
	if p.pos < len(p.trace) {
		d := p.trace[p.pos]
		p.pos++
		p.taken = append(p.taken, d)
		m.addPC(tc.Eq(b.T, tc.Const(w, d)))
		return d
	}
	if !m.ensureModel() {
		m.unsupported("concretize without model (%s)", why)
	}
	if siteStats != nil {
		siteMu.Lock()
		siteStats["concretize "+why+" "+firstLines(m.where(m.cur), 4)]++
		siteMu.Unlock()
	}
	v0 := m.evalUnder(b.T)
	block := []*Term{tc.Not(tc.Eq(b.T, tc.Const(w, v0)))}
	for n := 0; ; n++ {
		r, mod := m.check(block...)
		if r == Unsat {
			break
		}
		if r == Unknown {
			p.unknown = true
			m.job.noteUnknown("concretize " + why)
			break
		}
		if n >= m.concCap {
			m.unsupported("concretize(%s): more than %d feasible values", why, m.concCap)
		}
		v := evalTerm(b.T, mod, map[*Term]uint64{})
		m.spawnItem(v, mod)
		block = append(block, tc.Not(tc.Eq(b.T, tc.Const(w, v))))
	}
	p.taken = append(p.taken, v0)
	p.trace = p.taken
	p.pos = len(p.trace)
	m.addPC(tc.Eq(b.T, tc.Const(w, v0)))
	return v0
}

// choose is an engine-level n-way decision (map orders, fault points).
func (m *Machine) choose(n int, why string) int {
	if n <= 1 {
		return 0
	}
	p := m.path
	if p.pos < len(p.trace) {
		d := p.trace[p.pos]
		p.pos++
		p.taken = append(p.taken, d)
		return int(d)
	}
	for i := 1; i < n; i++ {
		m.spawnItem(uint64(i), p.model)
	}
	p.taken = append(p.taken, 0)
	p.trace = p.taken
	p.pos = len(p.trace)
	return 0
}

// recordChoice stores an engine-side choice in the decision trace (no alternatives are
// spawned); when a prefix is replayed the recorded value is returned instead.
func (m *Machine) recordChoice(v uint64) uint64 {
	p := m.path
	if p.pos < len(p.trace) {
		d := p.trace[p.pos]
		p.pos++
		p.taken = append(p.taken, d)
		return d
	}
	p.taken = append(p.taken, v)
	p.trace = p.taken
	p.pos = len(p.trace)
	return v
}

func (m *Machine) assume(c BoolV) {
	if c.T == nil {
		if !c.C {
			panic(pathEnd{kind: "assume-false"})
		}
		return
	}
	p := m.path
	if v, ok := p.quick(c.T); ok {
		if !v {
			panic(pathEnd{kind: "assume-false"})
		}
		return
	}
	if p.pos < len(p.trace) {
		m.addPC(c.T)
		return
	}
	if p.modelOK && m.evalUnder(c.T) == 1 {
		m.addPC(c.T)
		return
	}
	r, mod := m.check(c.T)
	switch r {
	case Sat:
		p.model, p.modelOK = mod, true
		m.addPC(c.T)
	case Unsat:
		panic(pathEnd{kind: "assume-false"})
	default:
		p.unknown = true
		p.modelOK = false
		m.job.noteUnknown("assume")
		m.addPC(c.T)
	}
}

// assert checks that c holds on every value consistent with the path condition.
func (m *Machine) assert(c BoolV, label string) {
	m.job.countAssert()
	if c.T == nil {
		if !c.C {
			m.ensureModel()
			m.reportViolation("assert", label, "assertion "+label+" is false on this path", m.path.model)
			panic(pathEnd{kind: "assert-failed", msg: label})
		}
		return
	}
	p := m.path
	neg := m.tc.Not(c.T)
	if v, ok := p.quick(c.T); ok && v {
		m.job.countDischarged()
		return
	}
	if p.pos >= len(p.trace) {
		// in replayed prefix the assertion was already examined by the parent path
		if p.modelOK && m.evalUnder(neg) == 1 {
			m.reportViolation("assert", label, "assertion "+label+" can fail", p.model)
		} else {
			r, mod := m.check(neg)
			switch r {
			case Sat:
				m.reportViolation("assert", label, "assertion "+label+" can fail", mod)
			case Unknown:
				p.unknown = true
				m.job.noteUnknown("assert " + label)
			default:
				m.job.countDischarged()
			}
		}
	}
	// continue on the side where it holds
	m.assume(c)
}

func (m *Machine) concreteVals(mod Model) map[string]uint64 {
	out := map[string]uint64{}
	memo := map[*Term]uint64{}
	for _, nd := range m.path.nondets {
		out[nd.Name] = evalTerm(nd.T, mod, memo)
	}
	return out
}

func (m *Machine) reportViolation(kind, label, msg string, mod Model) {
	v := &Violation{Label: label, Kind: kind, Msg: msg, Job: m.job.Params, Vals: m.concreteVals(mod), Notes: map[string]string{}}
	for k, s := range m.path.notes {
		v.Notes[k] = s
	}
	v.Site = m.siteOf(m.cur)
	v.Stack = m.where(m.cur)
	m.path.viol = append(m.path.viol, v)
}

// siteOf names the innermost repo (non-harness) function on the stack.
func (m *Machine) siteOf(fr *frame) string {
	for f := fr; f != nil; f = f.caller {
		fn := f.cf.fn
		if fn.Pkg == nil && fn.Parent() != nil {
			fn = fn.Parent()
		}
		name := f.cf.name
		if strings.Contains(name, "reeflective/readline") && !strings.Contains(name, "zzverif") && !strings.Contains(name, "ZZ") && !strings.Contains(name, "zz") {
			return strings.ReplaceAll(name, "github.com/reeflective/readline", "readline")
		}
	}
	return ""
}

func sortedKeys[V any](m map[string]V) []string {
	ks := make([]string, 0, len(m))
	for k := range m {
		ks = append(ks, k)
	}
	sort.Strings(ks)
	return ks
}

// mapOrder chooses the iteration order of a map: all permutations for maps of up to 3
// entries when enabled, insertion order otherwise.
func (m *Machine) mapOrder(mp *MapObj, order []int) []int {
	if !m.mapOrderAll || !m.logging || len(order) < 2 || len(order) > 3 {
		return order
	}
	perms := permutations(len(order))
	k := m.choose(len(perms), "map-order")
	out := make([]int, len(order))
	for i, j := range perms[k] {
		out[i] = order[j]
	}
	return out
}

func permutations(n int) [][]int {
	if n == 2 {
		return [][]int{{0, 1}, {1, 0}}
	}
	return [][]int{{0, 1, 2}, {0, 2, 1}, {1, 0, 2}, {1, 2, 0}, {2, 0, 1}, {2, 1, 0}}
}

func (m *Machine) fresh(name string, w uint16) *Term {
	p := m.path
	n := p.names[name]
	p.names[name] = n + 1
	if n > 0 {
		name = fmt.Sprintf("%s#%d", name, n)
	}
	t := m.tc.Sym(name, w)
	p.nondets = append(p.nondets, NondetRec{name, t})
	return t
}
