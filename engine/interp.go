package main

// The SSA interpreter proper: frames, instructions, calls, defer/panic/recover.

import (
	"fmt"
	"go/constant"
	"go/token"
	"go/types"
	"os"
	"strings"
	"sync"

	"golang.org/x/tools/go/ssa"
)

// goPanic is a panic of the interpreted program.
type goPanic struct {
	v     Value // interface value
	stack string
}

// pathEnd terminates the current path (engine control flow, not a Go panic).
type pathEnd struct {
	kind string // assume-false, blocked, budget, unsupported, deadlock, spin, exit, infeasible
	msg  string
}

const (
	okReg uint8 = iota
	okConst
	okGlobal
	okFunc
	okNone
)

type opnd struct {
	kind uint8
	idx  int
	val  Value
	g    *ssa.Global
}

type cinstr struct {
	in  ssa.Instruction
	dst int
	ops []opnd
	aux any
}

type cblock struct {
	nphi   int
	instrs []cinstr
}

type cfunc struct {
	fn       *ssa.Function
	nregs    int
	blocks   []*cblock
	params   []int
	freevars []int
	name     string
	seen     [64]bool // per-machine "already recorded in cover" flags
}

type Program struct {
	prog   *ssa.Program
	mu     sync.Mutex
	funcs  map[*ssa.Function]*cfunc
	pkgs   map[string]*ssa.Package
	consts sync.Map
}

func (p *Program) compile(fn *ssa.Function) *cfunc {
	p.mu.Lock()
	defer p.mu.Unlock()
	if cf, ok := p.funcs[fn]; ok {
		return cf
	}
	cf := &cfunc{fn: fn, name: fn.String()}
	idx := map[ssa.Value]int{}
	reg := func(v ssa.Value) int {
		if i, ok := idx[v]; ok {
			return i
		}
		i := cf.nregs
		cf.nregs++
		idx[v] = i
		return i
	}
	for _, prm := range fn.Params {
		cf.params = append(cf.params, reg(prm))
	}
	for _, fv := range fn.FreeVars {
		cf.freevars = append(cf.freevars, reg(fv))
	}
	for _, b := range fn.Blocks {
		for _, in := range b.Instrs {
			if v, ok := in.(ssa.Value); ok {
				reg(v)
			}
		}
	}
	mkop := func(v ssa.Value) opnd {
		switch x := v.(type) {
		case nil:
			return opnd{kind: okNone}
		case *ssa.Const:
			return opnd{kind: okConst, val: constValue(x)}
		case *ssa.Global:
			return opnd{kind: okGlobal, g: x}
		case *ssa.Function:
			return opnd{kind: okFunc, val: &Closure{fn: x}}
		case *ssa.Builtin:
			return opnd{kind: okFunc, val: &Closure{bltin: x}}
		}
		i, ok := idx[v]
		if !ok {
			panic(fmt.Sprintf("compile %s: operand %v (%T) has no register", fn, v, v))
		}
		return opnd{kind: okReg, idx: i}
	}
	for _, b := range fn.Blocks {
		cb := &cblock{}
		var rands []*ssa.Value
		for _, in := range b.Instrs {
			ci := cinstr{in: in, dst: -1}
			if v, ok := in.(ssa.Value); ok {
				ci.dst = idx[v]
			}
			if _, ok := in.(*ssa.Phi); ok {
				cb.nphi++
			}
			rands = in.Operands(rands[:0])
			for _, r := range rands {
				ci.ops = append(ci.ops, mkop(*r))
			}
			cb.instrs = append(cb.instrs, ci)
		}
		cf.blocks = append(cf.blocks, cb)
	}
	p.funcs[fn] = cf
	return cf
}

func constValue(c *ssa.Const) Value {
	t := c.Type()
	if c.Value == nil {
		// zero value of t (nil pointer/slice/map/... or zero struct for generics)
		return zeroConst{t}
	}
	switch u := t.Underlying().(type) {
	case *types.Basic:
		switch {
		case u.Info()&types.IsBoolean != 0:
			return BoolV{C: constant.BoolVal(c.Value)}
		case u.Info()&types.IsString != 0:
			if c.Value.Kind() == constant.String {
				return Str{S: constant.StringVal(c.Value)}
			}
			panic("constValue: non-string constant of string type")
		case u.Info()&types.IsInteger != 0:
			w, signed := intWidth(u)
			v := constant.ToInt(c.Value)
			if signed {
				i, _ := constant.Int64Val(v)
				return mkInt(w, uint64(i))
			}
			i, _ := constant.Uint64Val(v)
			return mkInt(w, i)
		case u.Info()&types.IsFloat != 0:
			f, _ := constant.Float64Val(constant.ToFloat(c.Value))
			return F64(f)
		case u.Info()&types.IsComplex != 0:
			re, _ := constant.Float64Val(constant.Real(c.Value))
			im, _ := constant.Float64Val(constant.Imag(c.Value))
			return Complex(complex(re, im))
		}
	case *types.Interface:
		// untyped const boxed? not produced by ssa
	}
	panic(fmt.Sprintf("constValue: %v of type %v", c, t))
}

// zeroConst is resolved lazily per machine (needs layout).
type zeroConst struct{ t types.Type }

type deferred struct {
	fn   Value
	args []Value
	pos  token.Pos
}

type frame struct {
	m         *Machine
	caller    *frame
	cf        *cfunc
	regs      []Value
	block     int
	prev      int
	defers    []deferred
	result    Value
	panicking bool
	panic     any
	curInstr  ssa.Instruction
	base      int
	index     int
	depthAt   int
}

func (fr *frame) get(o *opnd) Value {
	switch o.kind {
	case okReg:
		return fr.regs[o.idx]
	case okConst:
		if z, ok := o.val.(zeroConst); ok {
			return fr.m.zero(z.t)
		}
		return o.val
	case okGlobal:
		return fr.m.globalAddr(o.g)
	case okFunc:
		return o.val
	}
	return nil
}

func (m *Machine) globalAddr(g *ssa.Global) Ptr {
	if p, ok := m.globals[g]; ok {
		return p
	}
	t := g.Type().(*types.Pointer).Elem()
	p := m.allocType(t)
	p.o.tag = "global " + g.String()
	// globals are created lazily but belong to the checkpoint: writes must be undone
	p.o.epoch = 0
	if m.logging {
		m.undo = append(m.undo, undoRec{o: nil, mp: nil, ch: nil, slot: -1, old: g})
	}
	m.globals[g] = p
	if g.Pkg != nil && !m.inited[g.Pkg] && !m.initing[g.Pkg] {
		m.lazyInit(g.Pkg)
	}
	if g.Pkg != nil && !pkgInitAllowed(g.Pkg.Pkg.Path()) && !zeroOKGlobals[g.Pkg.Pkg.Path()+"."+g.Name()] {
		// a variable of a package whose initialiser is not interpreted: its real value is
		// unknown to the engine, so reading it would be unsound
		delete(m.globals, g)
		m.unsupported("global %s.%s belongs to a package whose initialiser is not interpreted", g.Pkg.Pkg.Path(), g.Name())
	}
	return p
}

func (m *Machine) where(fr *frame) string {
	var sb strings.Builder
	n := 0
	for f := fr; f != nil && n < 12; f = f.caller {
		pos := token.NoPos
		if f.curInstr != nil {
			pos = f.curInstr.Pos()
		}
		fmt.Fprintf(&sb, "  %s", f.cf.name)
		if pos != token.NoPos {
			p := m.prog.prog.Fset.Position(pos)
			fmt.Fprintf(&sb, " (%s:%d)", shortFile(p.Filename), p.Line)
		}
		sb.WriteString("\n")
		n++
	}
	return sb.String()
}

func shortFile(s string) string {
	if i := strings.Index(s, "/repo/"); i >= 0 {
		return s[i+6:]
	}
	if i := strings.LastIndex(s, "/src/"); i >= 0 {
		return s[i+5:]
	}
	return s
}

// goPanicRuntime raises a Go run-time panic in the interpreted program.
func (m *Machine) goPanicRuntime(msg string) {
	panic(&goPanic{v: Iface{t: m.runtimeErrT, v: Str{S: msg}}, stack: m.where(m.cur)})
}

func (m *Machine) unsupported(format string, args ...any) {
	msg := fmt.Sprintf(format, args...)
	panic(pathEnd{kind: "unsupported", msg: msg + "\n" + m.where(m.cur)})
}

// call invokes a function value.
func (m *Machine) call(caller *frame, fnv Value, args []Value, pos token.Pos) Value {
	switch f := fnv.(type) {
	case *Closure:
		if f == nil {
			m.goPanicRuntime("invalid memory address or nil pointer dereference (nil func call)")
		}
		if f.bltin != nil {
			return m.callBuiltin(caller, f.bltin, args, nil)
		}
		return m.callSSA(caller, f.fn, args, f.env)
	}
	panic(fmt.Sprintf("call: cannot call %T", fnv))
}

func (m *Machine) callSSA(caller *frame, fn *ssa.Function, args []Value, env []Value) Value {
	if ext, ok := m.intrinsic(fn); ok {
		saved := m.cur
		res, handled := ext(m, caller, fn, args)
		m.cur = saved
		if handled {
			return res
		}
	}
	if fn.Blocks == nil {
		m.unsupported("no code for function %s", fn.String())
	}
	m.depth++
	if m.depth > m.maxDepth {
		panic(pathEnd{kind: "depth", msg: "call depth exceeded in " + fn.String() + "\n" + m.where(caller)})
	}
	cf := m.cfuncs[fn]
	if cf == nil {
		cf = m.prog.compile(fn)
		m.cfuncs[fn] = cf
	}
	// registers live on a per-machine slab with stack discipline
	base := m.sp
	if base+cf.nregs > len(m.slab) {
		m.growSlab(base + cf.nregs)
	}
	m.sp = base + cf.nregs
	fr := m.newFrame()
	*fr = frame{m: m, caller: caller, cf: cf, regs: m.slab[base:m.sp:m.sp], prev: -1, base: base, defers: fr.defers[:0]}
	fr.index = m.nframes - 1
	fr.depthAt = m.depth
	for i, r := range cf.params {
		fr.regs[r] = args[i]
	}
	for i, r := range cf.freevars {
		fr.regs[r] = env[i]
	}
	m.stats.calls++
	if !cf.seen[m.id&63] {
		cf.seen[m.id&63] = true
		m.cover[fn] = true
	}
	saved := m.cur
	m.cur = fr
	for fr.block >= 0 {
		m.runFrame(fr)
	}
	m.cur = saved
	m.depth--
	res := fr.result
	clear(fr.regs)
	m.sp = base
	m.nframes--
	return res
}

func (m *Machine) growSlab(need int) {
	// existing frames keep their old backing array (still valid); new frames use the new one
	n := 2 * len(m.slab)
	if n < need+4096 {
		n = need + 4096
	}
	ns := make([]Value, n)
	copy(ns, m.slab[:m.sp])
	m.slab = ns
}

func (m *Machine) newFrame() *frame {
	if m.nframes >= len(m.frames) {
		m.frames = append(m.frames, &frame{})
	}
	fr := m.frames[m.nframes]
	m.nframes++
	return fr
}

func (m *Machine) runFrame(fr *frame) {
	defer func() {
		if fr.block < 0 {
			return
		}
		r := recover()
		if pe, ok := r.(pathEnd); ok {
			panic(pe)
		}
		if _, ok := r.(*goPanic); !ok {
			// interpreter bug or Go run-time error of the engine itself: decorate and rethrow
			if ie, ok := r.(*internalError); ok {
				panic(ie)
			}
			panic(&internalError{r, m.where(fr)})
		}
		fr.panicking = true
		fr.panic = r
		m.cur = fr
		// frames above this one were abandoned by the panic: reclaim their registers
		m.sp = fr.base + fr.cf.nregs
		m.nframes = fr.index + 1
		m.depth = fr.depthAt
		fr.runDefers()
		// recovered
		if fr.cf.fn.Recover != nil {
			fr.block = fr.cf.fn.Recover.Index
			fr.prev = -1
		} else {
			// no named results: return zero values
			fr.result = m.zeroResults(fr.cf.fn)
			fr.block = -1
		}
	}()
	for {
		cb := fr.cf.blocks[fr.block]
		instrs := cb.instrs
		if cb.nphi > 0 {
			// parallel phi assignment
			b := fr.cf.fn.Blocks[fr.block]
			predIdx := -1
			for i, p := range b.Preds {
				if p.Index == fr.prev {
					predIdx = i
					break
				}
			}
			var tmp [8]Value
			tmps := tmp[:0]
			for i := 0; i < cb.nphi; i++ {
				tmps = append(tmps, fr.get(&instrs[i].ops[predIdx]))
			}
			for i := 0; i < cb.nphi; i++ {
				fr.regs[instrs[i].dst] = tmps[i]
			}
			instrs = instrs[cb.nphi:]
		}
		for i := range instrs {
			ci := &instrs[i]
			fr.curInstr = ci.in
			m.steps++
			if m.steps > m.maxSteps {
				panic(pathEnd{kind: "budget", msg: "instruction budget exceeded\n" + m.where(fr)})
			}
			if m.exec(fr, ci) {
				return
			}
		}
	}
}

type internalError struct {
	v     any
	where string
}

func (e *internalError) Error() string {
	return fmt.Sprintf("engine internal error: %v\n%s", e.v, e.where)
}

func (m *Machine) zeroResults(fn *ssa.Function) Value {
	res := fn.Signature.Results()
	switch res.Len() {
	case 0:
		return nil
	case 1:
		return m.zero(res.At(0).Type())
	}
	out := make(Tuple, res.Len())
	for i := range out {
		out[i] = m.zero(res.At(i).Type())
	}
	return out
}

func (fr *frame) runDefer(d deferred) {
	ok := false
	defer func() {
		if !ok {
			r := recover()
			if pe, isPE := r.(pathEnd); isPE {
				panic(pe)
			}
			if ie, isIE := r.(*internalError); isIE {
				panic(ie)
			}
			if _, isGP := r.(*goPanic); !isGP {
				panic(&internalError{r, fr.m.where(fr)})
			}
			fr.panicking = true
			fr.panic = r
		}
	}()
	fr.m.cur = fr
	fr.m.call(fr, d.fn, d.args, d.pos)
	ok = true
}

func (fr *frame) runDefers() {
	for len(fr.defers) > 0 {
		d := fr.defers[len(fr.defers)-1]
		fr.defers = fr.defers[:len(fr.defers)-1]
		fr.runDefer(d)
	}
	if fr.panicking {
		panic(fr.panic)
	}
}

// exec runs one instruction; it returns true when the frame returned.
func (m *Machine) exec(fr *frame, ci *cinstr) bool {
	switch in := ci.in.(type) {
	case *ssa.DebugRef:
	case *ssa.UnOp:
		fr.regs[ci.dst] = m.unop(fr, in, fr.get(&ci.ops[0]))
	case *ssa.BinOp:
		fr.regs[ci.dst] = m.binop(in.Op, in.X.Type(), fr.get(&ci.ops[0]), fr.get(&ci.ops[1]))
	case *ssa.Call:
		sp0 := m.sp
		fn, args := m.prepareCall(fr, &in.Call, ci.ops, true)
		res := m.callValue(fr, fn, args, in, in.Pos())
		clear(args)
		m.sp = sp0
		fr.regs[ci.dst] = res
		m.cur = fr
	case *ssa.ChangeInterface:
		fr.regs[ci.dst] = fr.get(&ci.ops[0])
	case *ssa.ChangeType:
		fr.regs[ci.dst] = fr.get(&ci.ops[0])
	case *ssa.Convert:
		fr.regs[ci.dst] = m.convert(in.X.Type(), in.Type(), fr.get(&ci.ops[0]))
	case *ssa.MultiConvert:
		fr.regs[ci.dst] = m.convert(in.X.Type(), in.Type(), fr.get(&ci.ops[0]))
	case *ssa.SliceToArrayPointer:
		s := fr.get(&ci.ops[0]).(Slice)
		n := int(in.Type().(*types.Pointer).Elem().Underlying().(*types.Array).Len())
		if s.len < n {
			m.goPanicRuntime(fmt.Sprintf("cannot convert slice with length %d to array or pointer to array with length %d", s.len, n))
		}
		if s.o == nil {
			fr.regs[ci.dst] = Ptr{}
		} else {
			fr.regs[ci.dst] = Ptr{s.o, s.off}
		}
	case *ssa.MakeInterface:
		fr.regs[ci.dst] = Iface{t: in.X.Type(), v: fr.get(&ci.ops[0])}
	case *ssa.Extract:
		fr.regs[ci.dst] = fr.get(&ci.ops[0]).(Tuple)[in.Index]
	case *ssa.Slice:
		fr.regs[ci.dst] = m.sliceOp(in, fr.get(&ci.ops[0]), fr.get(&ci.ops[1]), fr.get(&ci.ops[2]), fr.get(&ci.ops[3]))
	case *ssa.Return:
		switch len(in.Results) {
		case 0:
		case 1:
			fr.result = fr.get(&ci.ops[0])
		default:
			res := make(Tuple, len(in.Results))
			for i := range res {
				res[i] = fr.get(&ci.ops[i])
			}
			fr.result = res
		}
		fr.block = -1
		return true
	case *ssa.RunDefers:
		fr.runDefers()
	case *ssa.Panic:
		panic(&goPanic{v: fr.get(&ci.ops[0]), stack: m.where(fr)})
	case *ssa.Send:
		m.chanSend(fr.get(&ci.ops[0]).(*ChanObj), fr.get(&ci.ops[1]))
	case *ssa.Store:
		t := in.Addr.Type().Underlying().(*types.Pointer).Elem()
		m.store(fr.get(&ci.ops[0]).(Ptr), t, fr.get(&ci.ops[1]))
	case *ssa.If:
		c := fr.get(&ci.ops[0]).(BoolV)
		var taken bool
		if c.T == nil {
			taken = c.C
		} else {
			taken = m.branch(c, "if")
		}
		b := fr.cf.fn.Blocks[fr.block]
		fr.prev = fr.block
		if taken {
			fr.block = b.Succs[0].Index
		} else {
			fr.block = b.Succs[1].Index
		}
		if fr.block <= fr.prev && c.T != nil {
			m.symBackEdges++
			if m.symBackEdges > m.maxSymBackEdges {
				panic(pathEnd{kind: "budget", msg: "symbolic back-edge budget exceeded\n" + m.where(fr)})
			}
		}
		return false
	case *ssa.Jump:
		b := fr.cf.fn.Blocks[fr.block]
		fr.prev = fr.block
		fr.block = b.Succs[0].Index
		return false
	case *ssa.Defer:
		fn, args := m.prepareCall(fr, &in.Call, ci.ops, false)
		fr.defers = append(fr.defers, deferred{fn: fn, args: args, pos: in.Pos()})
	case *ssa.Go:
		// goroutines are created but never scheduled (see DESIGN §3.9)
		m.stats.goStmts++
	case *ssa.MakeChan:
		n := m.concreteInt(fr.get(&ci.ops[0]).(BV), "makechan")
		fr.regs[ci.dst] = &ChanObj{cap: int(n), epoch: m.epoch}
	case *ssa.Alloc:
		t := in.Type().Underlying().(*types.Pointer).Elem()
		p := m.allocType(t)
		fr.regs[ci.dst] = p
	case *ssa.MakeSlice:
		ln := int(m.concreteInt(fr.get(&ci.ops[0]).(BV), "makeslice-len"))
		cp := int(m.concreteInt(fr.get(&ci.ops[1]).(BV), "makeslice-cap"))
		if ln < 0 || ln > 1<<24 {
			m.goPanicRuntime("makeslice: len out of range")
		}
		if cp < ln || cp > 1<<24 {
			m.goPanicRuntime("makeslice: cap out of range")
		}
		et := in.Type().Underlying().(*types.Slice).Elem()
		fr.regs[ci.dst] = m.makeSlice(et, ln, cp)
	case *ssa.MakeMap:
		mt := in.Type().Underlying().(*types.Map)
		fr.regs[ci.dst] = m.newMap(mt.Key(), mt.Elem())
	case *ssa.Range:
		fr.regs[ci.dst] = m.rangeIter(fr.get(&ci.ops[0]))
	case *ssa.Next:
		fr.regs[ci.dst] = m.next(in, fr.get(&ci.ops[0]).(*RangeIter))
	case *ssa.FieldAddr:
		p := fr.get(&ci.ops[0]).(Ptr)
		if p.o == nil {
			m.goPanicRuntime("invalid memory address or nil pointer dereference")
		}
		st := in.X.Type().Underlying().(*types.Pointer).Elem()
		fr.regs[ci.dst] = Ptr{p.o, p.off + m.layoutOf(st).fields[in.Field]}
	case *ssa.Field:
		tup := fr.get(&ci.ops[0]).(Tuple)
		l := m.layoutOf(in.X.Type())
		off := l.fields[in.Field]
		ft := in.Type()
		if isAggregate(ft) {
			n := m.sizeOf(ft)
			fr.regs[ci.dst] = Tuple(append([]Value(nil), tup[off:off+n]...))
		} else {
			fr.regs[ci.dst] = tup[off]
		}
	case *ssa.IndexAddr:
		fr.regs[ci.dst] = m.indexAddr(in, fr.get(&ci.ops[0]), fr.get(&ci.ops[1]).(BV))
	case *ssa.Index:
		fr.regs[ci.dst] = m.indexOp(in, fr.get(&ci.ops[0]), fr.get(&ci.ops[1]).(BV))
	case *ssa.Lookup:
		fr.regs[ci.dst] = m.lookup(in, fr.get(&ci.ops[0]), fr.get(&ci.ops[1]))
	case *ssa.MapUpdate:
		mp, _ := fr.get(&ci.ops[0]).(*MapObj)
		m.mapUpdate(mp, fr.get(&ci.ops[1]), fr.get(&ci.ops[2]))
	case *ssa.TypeAssert:
		fr.regs[ci.dst] = m.typeAssert(in, fr.get(&ci.ops[0]).(Iface))
	case *ssa.MakeClosure:
		env := make([]Value, len(in.Bindings))
		for i := range env {
			env[i] = fr.get(&ci.ops[i+1])
		}
		fr.regs[ci.dst] = &Closure{fn: in.Fn.(*ssa.Function), env: env}
	case *ssa.Phi:
		panic("phi outside block head")
	case *ssa.Select:
		fr.regs[ci.dst] = m.selectOp(fr, in, ci)
	default:
		panic(fmt.Sprintf("unexpected instruction %T", in))
	}
	return false
}

func (m *Machine) argSlab(n int) []Value {
	if m.sp+n > len(m.slab) {
		m.growSlab(m.sp + n)
	}
	a := m.slab[m.sp : m.sp+n : m.sp+n]
	m.sp += n
	return a
}

func (m *Machine) prepareCall(fr *frame, call *ssa.CallCommon, ops []opnd, onSlab bool) (Value, []Value) {
	// operand order: Value, Args...
	v := fr.get(&ops[0])
	nargs := len(call.Args)
	if call.Method == nil {
		var args []Value
		if onSlab {
			args = m.argSlab(nargs)
		} else {
			args = make([]Value, nargs)
		}
		for i := range args {
			args[i] = fr.get(&ops[i+1])
		}
		return v, args
	}
	// interface method invocation
	recv := v.(Iface)
	if recv.t == nil {
		m.goPanicRuntime("invalid memory address or nil pointer dereference (method call on nil interface)")
	}
	fn := m.lookupMethod(recv.t, call.Method)
	if fn == nil {
		m.unsupported("method %s not found for dynamic type %v", call.Method, recv.t)
	}
	var args []Value
	if onSlab {
		args = m.argSlab(nargs + 1)
	} else {
		args = make([]Value, nargs+1)
	}
	args[0] = recv.v
	for i := 0; i < nargs; i++ {
		args[i+1] = fr.get(&ops[i+1])
	}
	return &Closure{fn: fn}, args
}

func (m *Machine) lookupMethod(t types.Type, meth *types.Func) *ssa.Function {
	key := methKey{t, meth}
	if f, ok := m.methCache[key]; ok {
		return f
	}
	f := m.prog.prog.LookupMethod(t, meth.Pkg(), meth.Name())
	m.methCache[key] = f
	return f
}

type methKey struct {
	t types.Type
	f *types.Func
}

func (m *Machine) callValue(fr *frame, fnv Value, args []Value, site ssa.CallInstruction, pos token.Pos) Value {
	switch f := fnv.(type) {
	case *Closure:
		if f == nil {
			m.goPanicRuntime("invalid memory address or nil pointer dereference")
		}
		if f.bltin != nil {
			return m.callBuiltin(fr, f.bltin, args, site)
		}
		return m.callSSA(fr, f.fn, args, f.env)
	}
	panic(fmt.Sprintf("callValue: cannot call %T at %v", fnv, m.prog.prog.Fset.Position(pos)))
}

var _ = os.Stderr

// globals of uninterpreted packages whose zero value is their real initial value
var zeroOKGlobals = map[string]bool{
	"errors.errorType": true,
}
