package main

// Jobs, worker pool, path runner and result aggregation.

import (
	"fmt"
	"os"
	"runtime/debug"
	"sort"
	"strings"
	"sync"
	"time"

	"golang.org/x/tools/go/ssa"
)

type Job struct {
	Prop      string
	Name      string            // display name (harness short name + params)
	Harness   string            // "pkgpath.Func"
	Setup     string            // optional "pkgpath.Func" run before the checkpoint
	Params    map[string]string // concrete structural parameters
	Reach     []string          // labels that must be witnessed
	MaxPaths  int
	MapOrders bool
	Stubs     []string // functions replaced by no-ops returning zero values (recorded as cuts)

	mu                  sync.Mutex
	paths               map[string]int
	violations          []*Violation
	reaches             map[string]bool
	samples             []map[string]any
	unknowns            []string
	unsupported         []string
	asserts, discharged int
	decisions           int64
	steps               int64
	inflight            int
	solverT             time.Duration
	solverQ             int
	done                bool
	started             time.Time
	wall                time.Duration
}

func (j *Job) noteUnknown(s string) {
	j.mu.Lock()
	if len(j.unknowns) < 20 {
		j.unknowns = append(j.unknowns, s)
	}
	j.mu.Unlock()
}
func (j *Job) countAssert()     { j.mu.Lock(); j.asserts++; j.mu.Unlock() }
func (j *Job) countDischarged() { j.mu.Lock(); j.discharged++; j.mu.Unlock() }

type queued struct {
	job  *Job
	item WorkItem
}

type Explorer struct {
	prog        *Program
	nworkers    int
	solverBin   string
	timeoutMs   int
	mu          sync.Mutex
	cond        *sync.Cond
	queue       []queued
	active      int
	stop        bool
	cover       map[*ssa.Function]bool
	solverStats struct {
		q, sat, unsat, unk int
		t                  time.Duration
	}
	fatal    []string
	verbose  bool
	deadline time.Time
	maxSteps int64
	crossLog string // worker 0 records its query stream here for the cross-solver check
	crossMax int
}

func NewExplorer(p *Program, n int) *Explorer {
	e := &Explorer{prog: p, nworkers: n, solverBin: "z3", timeoutMs: 10000, cover: map[*ssa.Function]bool{}}
	e.cond = sync.NewCond(&e.mu)
	return e
}

func (e *Explorer) push(q queued) {
	e.mu.Lock()
	q.job.inflight++
	e.queue = append(e.queue, q)
	e.mu.Unlock()
	e.cond.Signal()
}

func (e *Explorer) pop() (queued, bool) {
	e.mu.Lock()
	defer e.mu.Unlock()
	for len(e.queue) == 0 {
		if e.active == 0 || e.stop {
			e.cond.Broadcast()
			return queued{}, false
		}
		e.cond.Wait()
	}
	if e.stop {
		return queued{}, false
	}
	q := e.queue[len(e.queue)-1]
	e.queue = e.queue[:len(e.queue)-1]
	e.active++
	return q, true
}

func (e *Explorer) finish(q queued) {
	e.mu.Lock()
	e.active--
	q.job.inflight--
	if q.job.inflight == 0 {
		q.job.done = true
		q.job.wall = time.Since(q.job.started)
	}
	if e.active == 0 && len(e.queue) == 0 {
		e.cond.Broadcast()
	}
	e.mu.Unlock()
}

// Run explores all jobs to completion.
func (e *Explorer) Run(jobs []*Job) {
	now := time.Now()
	for i := len(jobs) - 1; i >= 0; i-- {
		j := jobs[i]
		j.paths = map[string]int{}
		j.reaches = map[string]bool{}
		j.started = now
		e.push(queued{job: j, item: WorkItem{model: Model{}}})
	}
	var wg sync.WaitGroup
	stopProgress := make(chan bool)
	if os.Getenv("GOSX_PROGRESS") != "" {
		go func() {
			tk := time.NewTicker(5 * time.Second)
			for {
				select {
				case <-stopProgress:
					return
				case <-tk.C:
					e.mu.Lock()
					ql, act := len(e.queue), e.active
					e.mu.Unlock()
					tot := map[string]int{}
					for _, j := range jobs {
						j.mu.Lock()
						for k, n := range j.paths {
							tot[k] += n
						}
						j.mu.Unlock()
					}
					fmt.Fprintf(os.Stderr, "progress: queue=%d active=%d paths=%v\n", ql, act, tot)
				}
			}
		}()
	}
	defer close(stopProgress)
	for w := 0; w < e.nworkers; w++ {
		wg.Add(1)
		go func(id int) {
			defer wg.Done()
			e.worker(id)
		}(w)
	}
	wg.Wait()
}

func (e *Explorer) worker(id int) {
	solver, err := NewSolver(e.solverBin, e.timeoutMs)
	if err != nil {
		e.mu.Lock()
		e.fatal = append(e.fatal, "cannot start solver: "+err.Error())
		e.stop = true
		e.mu.Unlock()
		e.cond.Broadcast()
		return
	}
	defer solver.Close()
	if p := os.Getenv("GOSX_SMTLOG"); p != "" && id == 0 {
		solver.OpenLog(p, 0)
	} else if e.crossLog != "" && id == 0 {
		solver.OpenLog(e.crossLog, e.crossMax)
	}
	machines := map[string]*Machine{}
	defer func() {
		e.mu.Lock()
		e.solverStats.q += solver.NQueries
		e.solverStats.sat += solver.NSat
		e.solverStats.unsat += solver.NUnsat
		e.solverStats.unk += solver.NUnknown
		e.solverStats.t += solver.Time
		for _, m := range machines {
			for f := range m.cover {
				e.cover[f] = true
			}
		}
		e.mu.Unlock()
	}()
	for {
		q, ok := e.pop()
		if !ok {
			return
		}
		if !e.deadline.IsZero() && time.Now().After(e.deadline) {
			q.job.mu.Lock()
			q.job.paths["timeout-skipped"]++
			q.job.mu.Unlock()
			e.finish(q)
			continue
		}
		key := q.job.Setup + "|" + fmt.Sprint(q.job.MapOrders) + "|" + strings.Join(q.job.Stubs, ",")
		m := machines[key]
		if m == nil {
			m, err = e.newMachine(q.job, solver)
			if err != nil {
				q.job.mu.Lock()
				q.job.unsupported = append(q.job.unsupported, "setup failed: "+err.Error())
				q.job.paths["setup-failed"]++
				q.job.mu.Unlock()
				e.finish(q)
				continue
			}
			machines[key] = m
		}
		e.runPath(m, q)
		e.finish(q)
	}
}

func (e *Explorer) newMachine(job *Job, solver *Solver) (m *Machine, err error) {
	m = NewMachine(e.prog)
	m.solver = solver
	m.job = job
	m.mapOrderAll = job.MapOrders
	m.stubSet = map[string]bool{}
	for _, s := range job.Stubs {
		m.stubSet[s] = true
	}
	if e.maxSteps > 0 {
		m.maxSteps = e.maxSteps
	}
	m.spawn = func(WorkItem) { panic("spawn during setup: setup must be concrete") }
	defer func() {
		if r := recover(); r != nil {
			err = fmt.Errorf("%v", describePanic(m, r))
		}
	}()
	m.initAll()
	if job.Setup != "" {
		fn := e.prog.lookupFunc(job.Setup)
		if fn == nil {
			return nil, fmt.Errorf("setup function %s not found", job.Setup)
		}
		m.callSSA(nil, fn, nil, nil)
	}
	m.checkpoint()
	return m, nil
}

func describePanic(m *Machine, r any) string {
	switch x := r.(type) {
	case pathEnd:
		return x.kind + ": " + x.msg
	case *goPanic:
		return "go panic: " + m.panicMessage(x) + "\n" + x.stack
	case *internalError:
		return x.Error()
	}
	return fmt.Sprintf("%v\n%s", r, debug.Stack())
}

func (m *Machine) panicMessage(gp *goPanic) string {
	iv, ok := gp.v.(Iface)
	if !ok || iv.t == nil {
		return "panic(nil)"
	}
	if s, ok := iv.v.(Str); ok {
		if iv.t == m.runtimeErrT {
			return "runtime error: " + m.strConcrete(s)
		}
		return m.strConcrete(s)
	}
	// error value: call Error()
	defer func() { recover() }()
	if s, ok := m.callErrorMethod(iv); ok {
		return s
	}
	return fmt.Sprintf("panic(%s)", describe(iv))
}

// strConcrete renders a string, concretising symbolic bytes with the current model.
func (m *Machine) strConcrete(s Str) string {
	if s.Sym == nil {
		return s.S
	}
	b := []byte(s.S)
	memo := map[*Term]uint64{}
	for i, t := range s.Sym {
		if t != nil {
			b[i] = byte(evalTerm(t, m.path.model, memo))
		}
	}
	return string(b)
}

func (e *Explorer) runPath(m *Machine, q queued) {
	job := q.job
	m.job = job
	m.tc = NewTermCtx()
	m.path = &PathState{trace: q.item.trace, names: map[string]int{}, reaches: map[string]bool{}, notes: map[string]string{}, known: map[*Term]bool{}, doms: map[*Term]*dom{}, scanned: map[*Term]bool{}}
	if q.item.model != nil {
		m.path.model = q.item.model
		m.path.modelOK = true
	} else {
		m.path.model = Model{}
		m.path.modelOK = len(q.item.trace) == 0
	}
	m.steps = 0
	m.depth = 0
	clear(m.slab[:m.sp])
	m.sp = 0
	m.nframes = 0
	m.symBackEdges = 0
	m.cur = nil
	m.env.reset()
	m.spawn = func(it WorkItem) {
		if job.MaxPaths > 0 {
			job.mu.Lock()
			n := 0
			for _, c := range job.paths {
				n += c
			}
			over := n+job.inflight > job.MaxPaths
			job.mu.Unlock()
			if over {
				job.mu.Lock()
				job.paths["dropped-maxpaths"]++
				job.mu.Unlock()
				return
			}
		}
		e.push(queued{job: job, item: it})
	}
	fn := e.prog.lookupFunc(job.Harness)
	solverT0 := m.solver.Time
	solverQ0 := m.solver.NQueries
	outcome := "returned"
	msg := ""
	func() {
		defer func() {
			r := recover()
			if r == nil {
				return
			}
			switch x := r.(type) {
			case pathEnd:
				outcome = x.kind
				msg = x.msg
				if x.kind == "budget" || x.kind == "depth" {
					// possibly a genuine non-terminating loop / unbounded recursion: let the
					// native replay decide (it must hang or overflow to count)
					if m.ensureModelQuiet() {
						m.reportViolation("hang", "terminates", firstLine(x.msg), m.path.model)
						v := m.path.viol[len(m.path.viol)-1]
						v.Stack = x.msg
						v.Site = siteFromStack(x.msg)
					}
				}
				switch x.kind {
				case "deadlock", "spin":
					if m.ensureModelQuiet() {
						m.reportViolation(x.kind, x.kind, firstLine(x.msg), m.path.model)
						// site is taken from the message's stack
						v := m.path.viol[len(m.path.viol)-1]
						v.Stack = x.msg
						v.Site = siteFromStack(x.msg)
					}
				}
			case *goPanic:
				outcome = "panic-escaped"
				msg = m.panicMessage(x)
				if m.ensureModelQuiet() {
					m.reportViolation("panic", "no-panic", msg, m.path.model)
					v := m.path.viol[len(m.path.viol)-1]
					v.Stack = x.stack
					v.Site = siteFromStack(x.stack)
				}
			case *internalError:
				outcome = "engine-error"
				msg = x.Error()
			default:
				outcome = "engine-error"
				msg = fmt.Sprintf("%v\n%s", r, debug.Stack())
			}
		}()
		if fn == nil {
			panic(pathEnd{kind: "unsupported", msg: "harness function " + job.Harness + " not found"})
		}
		m.callSSA(nil, fn, nil, nil)
	}()
	if m.path.pos < len(m.path.trace) && outcome != "engine-error" {
		outcome = "engine-error"
		msg = fmt.Sprintf("replay divergence: %d of %d decisions consumed (%s)", m.path.pos, len(m.path.trace), msg)
	}
	// sample
	var sample map[string]any
	if m.path.modelOK || m.ensureModelQuiet() {
		jobCopy := map[string]string{}
		for k, v := range job.Params {
			jobCopy[k] = v
		}
		sample = map[string]any{"outcome": outcome, "inputs": m.concreteVals(m.path.model), "job": jobCopy}
		if len(m.path.notes) > 0 {
			sample["notes"] = m.path.notes
		}
	}
	nd := len(m.path.taken)
	steps := m.steps
	viol := m.path.viol
	reaches := m.path.reaches
	unk := m.path.unknown
	m.rollback()

	job.mu.Lock()
	job.paths[outcome]++
	job.solverT += m.solver.Time - solverT0
	job.solverQ += m.solver.NQueries - solverQ0
	job.decisions += int64(nd)
	job.steps += steps
	if unk {
		job.paths["solver-unknown"]++
	}
	for l := range reaches {
		job.reaches[l] = true
	}
	switch outcome {
	case "unsupported", "engine-error", "budget", "depth":
		if len(job.unsupported) < 10 {
			job.unsupported = append(job.unsupported, outcome+": "+msg)
		}
	}
	for _, v := range viol {
		job.violations = append(job.violations, v)
	}
	if sample != nil && len(job.samples) < 3 && outcome != "assume-false" {
		job.samples = append(job.samples, sample)
	}
	job.mu.Unlock()
	if e.verbose {
		fmt.Fprintf(os.Stderr, "[%s] path %v -> %s %s\n", job.Name, q.item.trace, outcome, firstLine(msg))
	}
}

func (m *Machine) ensureModelQuiet() (ok bool) {
	defer func() {
		if r := recover(); r != nil {
			ok = false
		}
	}()
	return m.ensureModel()
}

func firstLine(s string) string {
	if i := strings.IndexByte(s, '\n'); i >= 0 {
		return s[:i]
	}
	return s
}

func siteFromStack(st string) string {
	for _, ln := range strings.Split(st, "\n") {
		ln = strings.TrimSpace(ln)
		if strings.Contains(ln, "reeflective/readline") && !strings.Contains(ln, "zzverif") && !strings.Contains(ln, "ZZ") && !strings.Contains(ln, "zz_") {
			if i := strings.Index(ln, " ("); i >= 0 {
				ln = ln[:i]
			}
			return strings.ReplaceAll(ln, "github.com/reeflective/readline", "readline")
		}
	}
	return ""
}

func (p *Program) lookupFunc(full string) *ssa.Function {
	i := strings.LastIndex(full, ".")
	if i < 0 {
		return nil
	}
	pkg := p.pkgs[full[:i]]
	if pkg == nil {
		return nil
	}
	return pkg.Func(full[i+1:])
}

func (j *Job) summary() string {
	var parts []string
	keys := make([]string, 0, len(j.paths))
	for k := range j.paths {
		keys = append(keys, k)
	}
	sort.Strings(keys)
	for _, k := range keys {
		parts = append(parts, fmt.Sprintf("%s=%d", k, j.paths[k]))
	}
	return fmt.Sprintf("%-40s %s viol=%d solver=%.1fs/%dq cpu-wall=%.1fs", j.Name, strings.Join(parts, " "), len(j.violations), j.solverT.Seconds(), j.solverQ, j.wall.Seconds())
}
