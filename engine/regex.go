package main

// Symbolic regexp matching: the pattern is compiled by the real regexp/syntax package; a
// leftmost-first backtracking matcher (Go's own matching discipline for Perl syntax) runs
// over the compiled program, and every rune-class test on a symbolic rune is a branch.
// Concrete subjects never get here: they go to the native regexp.

import (
	"go/types"
	"regexp"
	"regexp/syntax"
	"strings"
	"sync"

	"golang.org/x/tools/go/ssa"
)

type reProg struct {
	prog *syntax.Prog
	ncap int
}

var reProgs sync.Map

func progOf(re *regexp.Regexp) *reProg {
	if v, ok := reProgs.Load(re.String()); ok {
		return v.(*reProg)
	}
	rx, err := syntax.Parse(re.String(), syntax.Perl)
	if err != nil {
		panic("regex reparse: " + err.Error())
	}
	ncap := rx.MaxCap()
	rx = rx.Simplify()
	prog, err := syntax.Compile(rx)
	if err != nil {
		panic("regex recompile: " + err.Error())
	}
	rp := &reProg{prog: prog, ncap: ncap}
	reProgs.Store(re.String(), rp)
	return rp
}

type reInput struct {
	runes []BV
	offs  []int
}

func (m *Machine) reInputOf(s Str) *reInput {
	rs, offs := m.runeSpans(s)
	return &reInput{rs, offs}
}

func (m *Machine) runeIn(r BV, lo, hi rune) *Term {
	tc := m.tc
	if lo == hi {
		return tc.Eq(r.T, tc.Const(32, uint64(uint32(lo))))
	}
	return tc.And(tc.Cmp(OpUle, tc.Const(32, uint64(uint32(lo))), r.T), tc.Cmp(OpUle, r.T, tc.Const(32, uint64(uint32(hi)))))
}

func (m *Machine) reRuneMatches(inst *syntax.Inst, r BV) bool {
	if r.T == nil {
		return inst.MatchRune(rune(int32(uint32(r.C))))
	}
	switch inst.Op {
	case syntax.InstRuneAny:
		return true
	case syntax.InstRuneAnyNotNL:
		return !m.branch(m.fromTerm(m.tc.Eq(r.T, m.tc.Const(32, '\n'))).(BoolV), "re-anynotnl")
	}
	if syntax.Flags(inst.Arg)&syntax.FoldCase != 0 {
		m.unsupported("case-folding regexp on symbolic text")
	}
	cond := m.tc.ff
	rs := inst.Rune
	if len(rs) == 1 {
		cond = m.runeIn(r, rs[0], rs[0])
	} else {
		for i := 0; i+1 < len(rs); i += 2 {
			cond = m.tc.Or(cond, m.runeIn(r, rs[i], rs[i+1]))
		}
	}
	return m.branch(m.fromTerm(cond).(BoolV), "re-rune")
}

func (m *Machine) reIsWord(r BV) bool {
	if r.T == nil {
		c := rune(int32(uint32(r.C)))
		return c == '_' || (c >= '0' && c <= '9') || (c >= 'a' && c <= 'z') || (c >= 'A' && c <= 'Z')
	}
	cond := m.tc.Or(m.tc.Or(m.runeIn(r, '0', '9'), m.runeIn(r, 'a', 'z')), m.tc.Or(m.runeIn(r, 'A', 'Z'), m.runeIn(r, '_', '_')))
	return m.branch(m.fromTerm(cond).(BoolV), "re-word")
}

func (m *Machine) reIsNL(r BV) bool {
	if r.T == nil {
		return r.C == '\n'
	}
	return m.branch(m.fromTerm(m.tc.Eq(r.T, m.tc.Const(32, '\n'))).(BoolV), "re-nl")
}

func (m *Machine) reEmptyOK(op syntax.EmptyOp, in *reInput, pos int) bool {
	n := len(in.runes)
	if op&syntax.EmptyBeginText != 0 && pos != 0 {
		return false
	}
	if op&syntax.EmptyEndText != 0 && pos != n {
		return false
	}
	if op&syntax.EmptyBeginLine != 0 && pos != 0 && !m.reIsNL(in.runes[pos-1]) {
		return false
	}
	if op&syntax.EmptyEndLine != 0 && pos != n && !m.reIsNL(in.runes[pos]) {
		return false
	}
	if op&(syntax.EmptyWordBoundary|syntax.EmptyNoWordBoundary) != 0 {
		w1 := pos > 0 && m.reIsWord(in.runes[pos-1])
		w2 := pos < n && m.reIsWord(in.runes[pos])
		if op&syntax.EmptyWordBoundary != 0 && w1 == w2 {
			return false
		}
		if op&syntax.EmptyNoWordBoundary != 0 && w1 != w2 {
			return false
		}
	}
	return true
}

// reExec finds the leftmost-first match starting the search at rune index from; it
// returns capture positions as rune indices (2*(ncap+1) entries, -1 = unset) or nil.
func (m *Machine) reExec(rp *reProg, in *reInput, from int) []int {
	ncaps := 2 * (rp.ncap + 1)
	n := len(in.runes)
	for start := from; start <= n; start++ {
		visited := map[[2]int]bool{}
		caps := make([]int, ncaps)
		for i := range caps {
			caps[i] = -1
		}
		caps[0] = start
		var run func(pc uint32, pos int) []int
		run = func(pc uint32, pos int) []int {
			for {
				key := [2]int{int(pc), pos}
				inst := &rp.prog.Inst[pc]
				switch inst.Op {
				case syntax.InstFail:
					return nil
				case syntax.InstMatch:
					out := make([]int, ncaps)
					copy(out, caps)
					out[1] = pos
					return out
				case syntax.InstNop:
					pc = inst.Out
				case syntax.InstCapture:
					if int(inst.Arg) < ncaps {
						old := caps[inst.Arg]
						caps[inst.Arg] = pos
						if r := run(inst.Out, pos); r != nil {
							return r
						}
						caps[inst.Arg] = old
						return nil
					}
					pc = inst.Out
				case syntax.InstAlt, syntax.InstAltMatch:
					if visited[key] {
						return nil
					}
					visited[key] = true
					if r := run(inst.Out, pos); r != nil {
						return r
					}
					pc = inst.Arg
				case syntax.InstEmptyWidth:
					if !m.reEmptyOK(syntax.EmptyOp(inst.Arg), in, pos) {
						return nil
					}
					pc = inst.Out
				default: // rune instructions
					if pos >= n {
						return nil
					}
					if !m.reRuneMatches(inst, in.runes[pos]) {
						return nil
					}
					pos++
					pc = inst.Out
				}
			}
		}
		// whole match is capture 0
		if r := run(uint32(rp.prog.Start), start); r != nil {
			if r[0] < 0 {
				r[0] = start
			}
			return r
		}
		if rp.prog.StartCond()&syntax.EmptyBeginText != 0 {
			break
		}
	}
	return nil
}

// reFindAll mirrors regexp.allMatches; results are byte offsets.
func (m *Machine) reFindAll(rp *reProg, in *reInput, limit int) [][]int {
	var out [][]int
	n := len(in.runes)
	prevEnd := -1
	for pos, i := 0, 0; (limit < 0 || i < limit) && pos <= n; {
		caps := m.reExec(rp, in, pos)
		if caps == nil {
			break
		}
		accept := true
		if caps[1] == pos {
			if caps[0] == prevEnd {
				accept = false
			}
			pos++
		} else {
			pos = caps[1]
		}
		prevEnd = caps[1]
		if accept {
			b := make([]int, len(caps))
			for k, c := range caps {
				if c < 0 {
					b[k] = -1
				} else {
					b[k] = in.offs[c]
				}
			}
			out = append(out, b)
			i++
		}
	}
	return out
}

func (m *Machine) reReplaceAll(rp *reProg, s Str, in *reInput, repl Str) Str {
	n := len(in.runes)
	out := Str{}
	lastEnd := 0 // rune index
	for search := 0; search <= n; {
		caps := m.reExec(rp, in, search)
		if caps == nil {
			break
		}
		out = concatStr(out, s.slice(in.offs[lastEnd], in.offs[caps[0]]))
		if caps[1] > lastEnd || caps[0] == 0 {
			out = concatStr(out, repl)
		}
		lastEnd = caps[1]
		if search+1 > caps[1] {
			search++
		} else {
			search = caps[1]
		}
	}
	out = concatStr(out, s.slice(in.offs[lastEnd], len(s.S)))
	return out.norm()
}

func (m *Machine) intsSlice(xs []int) Slice {
	sl := m.makeSlice(types.Typ[types.Int], len(xs), len(xs))
	for i, x := range xs {
		sl.o.slots[i] = mkInt(64, uint64(int64(x)))
	}
	return sl
}

func (m *Machine) bytesSlice(s Str) Slice {
	sl := m.makeSlice(types.Typ[types.Uint8], len(s.S), len(s.S))
	for i := range s.S {
		sl.o.slots[i] = s.byteAt(i)
	}
	return sl
}

// symRegexpCall handles a regexp method on a symbolic subject; ok=false if unsupported.
func (m *Machine) symRegexpCall(re *regexp.Regexp, name string, fn *ssa.Function, a []Value) (Value, bool) {
	rp := progOf(re)
	subj := func(v Value) (Str, bool) {
		switch x := v.(type) {
		case Str:
			return x, x.Sym != nil
		case Slice:
			s := m.sliceToStr(x)
			return s, s.Sym != nil
		}
		return Str{}, false
	}
	s, sym := subj(a[0])
	if !sym {
		return nil, false
	}
	in := m.reInputOf(s)
	limitArg := func(i int) int {
		if i < len(a) {
			return int(m.concreteInt(a[i].(BV), "regexp-n"))
		}
		return -1
	}
	nilSlice := func(es int) Slice { return Slice{es: es} }
	switch name {
	case "Match", "MatchString":
		return BoolV{C: m.reExec(rp, in, 0) != nil}, true
	case "FindStringIndex", "FindIndex":
		all := m.reFindAll(rp, in, 1)
		if len(all) == 0 {
			return nilSlice(1), true
		}
		return m.intsSlice(all[0][:2]), true
	case "FindString":
		all := m.reFindAll(rp, in, 1)
		if len(all) == 0 {
			return Str{}, true
		}
		return s.slice(all[0][0], all[0][1]), true
	case "FindAllStringIndex", "FindAllIndex":
		all := m.reFindAll(rp, in, limitArg(1))
		if len(all) == 0 {
			return nilSlice(1), true
		}
		st := fn.Signature.Results().At(0).Type().Underlying().(*types.Slice)
		sl := m.makeSlice(st.Elem(), len(all), len(all))
		for i, c := range all {
			sl.o.slots[i] = m.intsSlice(c[:2])
		}
		return sl, true
	case "FindAllStringSubmatchIndex":
		all := m.reFindAll(rp, in, limitArg(1))
		if len(all) == 0 {
			return nilSlice(1), true
		}
		st := fn.Signature.Results().At(0).Type().Underlying().(*types.Slice)
		sl := m.makeSlice(st.Elem(), len(all), len(all))
		for i, c := range all {
			sl.o.slots[i] = m.intsSlice(c)
		}
		return sl, true
	case "FindAllString":
		all := m.reFindAll(rp, in, limitArg(1))
		if len(all) == 0 {
			return nilSlice(1), true
		}
		parts := make([]Str, len(all))
		for i, c := range all {
			parts[i] = s.slice(c[0], c[1])
		}
		return m.strSliceValue(parts), true
	case "FindAll":
		all := m.reFindAll(rp, in, limitArg(1))
		if len(all) == 0 {
			return nilSlice(1), true
		}
		st := fn.Signature.Results().At(0).Type().Underlying().(*types.Slice)
		sl := m.makeSlice(st.Elem(), len(all), len(all))
		for i, c := range all {
			sl.o.slots[i] = m.bytesSlice(s.slice(c[0], c[1]))
		}
		return sl, true
	case "FindAllStringSubmatch", "FindStringSubmatch":
		lim := 1
		if name == "FindAllStringSubmatch" {
			lim = limitArg(1)
		}
		all := m.reFindAll(rp, in, lim)
		if len(all) == 0 {
			return nilSlice(1), true
		}
		mk := func(c []int) Slice {
			parts := make([]Str, len(c)/2)
			for k := range parts {
				if c[2*k] >= 0 {
					parts[k] = s.slice(c[2*k], c[2*k+1])
				}
			}
			return m.strSliceValue(parts)
		}
		if name == "FindStringSubmatch" {
			return mk(all[0]), true
		}
		st := fn.Signature.Results().At(0).Type().Underlying().(*types.Slice)
		sl := m.makeSlice(st.Elem(), len(all), len(all))
		for i, c := range all {
			sl.o.slots[i] = mk(c)
		}
		return sl, true
	case "ReplaceAllString", "ReplaceAllLiteralString", "ReplaceAll":
		var repl Str
		switch x := a[1].(type) {
		case Str:
			repl = x
		case Slice:
			repl = m.sliceToStr(x)
		}
		if name != "ReplaceAllLiteralString" && repl.Sym != nil {
			return nil, false
		}
		var out Str
		if name != "ReplaceAllLiteralString" && strings.Contains(repl.S, "$") {
			out = m.reReplaceExpand(rp, re, s, in, repl.S)
		} else {
			out = m.reReplaceAll(rp, s, in, repl)
		}
		if name == "ReplaceAll" {
			if len(out.S) == 0 && len(s.S) == 0 {
				return nilSlice(1), true
			}
			return m.bytesSlice(out), true
		}
		return out, true
	}
	return nil, false
}

// reReplaceExpand is ReplaceAllString with $-template expansion (regexp.expand rules).
func (m *Machine) reReplaceExpand(rp *reProg, re *regexp.Regexp, s Str, in *reInput, tmpl string) Str {
	n := len(in.runes)
	out := Str{}
	lastEnd := 0
	names := re.SubexpNames()
	group := func(caps []int, k int) Str {
		if k < 0 || 2*k+1 >= len(caps) || caps[2*k] < 0 {
			return Str{}
		}
		return s.slice(in.offs[caps[2*k]], in.offs[caps[2*k+1]])
	}
	expand := func(caps []int) Str {
		res := Str{}
		t := tmpl
		for len(t) > 0 {
			i := strings.IndexByte(t, '$')
			if i < 0 {
				break
			}
			res = concatStr(res, Str{S: t[:i]})
			t = t[i:]
			if len(t) > 1 && t[1] == '$' {
				res = concatStr(res, Str{S: "$"})
				t = t[2:]
				continue
			}
			name, num, rest, ok := reExtract(t)
			if !ok {
				res = concatStr(res, Str{S: "$"})
				t = t[1:]
				continue
			}
			t = rest
			if num >= 0 {
				res = concatStr(res, group(caps, num))
			} else {
				for k, nm := range names {
					if nm == name && k < len(caps)/2 && caps[2*k] >= 0 {
						res = concatStr(res, group(caps, k))
						break
					}
				}
			}
		}
		return concatStr(res, Str{S: t})
	}
	for search := 0; search <= n; {
		caps := m.reExec(rp, in, search)
		if caps == nil {
			break
		}
		out = concatStr(out, s.slice(in.offs[lastEnd], in.offs[caps[0]]))
		if caps[1] > lastEnd || caps[0] == 0 {
			out = concatStr(out, expand(caps))
		}
		lastEnd = caps[1]
		if search+1 > caps[1] {
			search++
		} else {
			search = caps[1]
		}
	}
	out = concatStr(out, s.slice(in.offs[lastEnd], len(s.S)))
	return out.norm()
}

// reExtract mirrors regexp.extract: "$name", "${name}", "$1", "${1}".
func reExtract(str string) (name string, num int, rest string, ok bool) {
	if len(str) < 2 || str[0] != '$' {
		return
	}
	brace := false
	if str[1] == '{' {
		brace = true
		str = str[2:]
	} else {
		str = str[1:]
	}
	i := 0
	for i < len(str) {
		c := str[i]
		if !(c == '_' || (c >= '0' && c <= '9') || (c >= 'a' && c <= 'z') || (c >= 'A' && c <= 'Z')) {
			break
		}
		i++
	}
	if i == 0 {
		return
	}
	name = str[:i]
	if brace {
		if i >= len(str) || str[i] != '}' {
			return
		}
		i++
	}
	num = 0
	for k := 0; k < len(name); k++ {
		if name[k] < '0' || name[k] > '9' || num >= 1e8 {
			num = -1
			break
		}
		num = num*10 + int(name[k]) - '0'
	}
	if name[0] == '0' && len(name) > 1 {
		num = -1
	}
	rest = str[i:]
	ok = true
	return
}
